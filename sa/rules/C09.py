"""C09 - a saved sampler reloads to an equivalent sampler that can continue (tier S).

Decides, for each save/load pair: reader/writer key agreement; every attribute any public
entry reads is defined on the reloaded object; save reads only attributes defined at every
point of an object's life; every value read from the file reaches the object; every
attribute that stepping mutates is persisted and restored.
Does not decide: value round-trip through .npz (dtype/precision), rng-state equality.
"""
from __future__ import annotations
import ast
import copy
from ..model import qual
from ..attrs import Typestate, NONE, NOTNONE, UNKNOWN, abstract_of
from .common import struct_ob, U, invert_hazard_obligations
from . import mcmc
from ..report import AnalysisError
from ..term import Resolver, pmatch, abstract, anf_of
from ..anf import R, Unsupported
from .. import anf

PAIRS = ["MetropolisChain", "GibbsChain", "PcaChain", "HamiltonianChain", "EnsembleSampler"]
ENTRIES = ["take_step", "advance", "run_for", "get_parameter", "get_probabilities", "get_sample",
           "get_interval", "get_marginal", "mode", "save", "matrix_plot", "trace_plot", "plot_diagnostics"]
FLOORS = {"key-agreement": 6, "reload-defined": 40, "save-defined": 5, "restored-value-flow": 4,
          "state-persisted": 7, "key-pairing": 6, "restored-type": 2,
          "stack-roundtrip": 2, "derived-consistent": 5, "slot-reselected": 1, "reloaded-limit-hook": 3, "ctor-arg-roundtrip": 1, "rebuilt-object-roundtrip": 3, "load-forwards-arguments": 4, "adaptation-test-survives-reload": 2, "saved-key-restored": 7, "restore-target": 6, "restored-container": 6, "save-writes": 4, "state-unshared": 5}


def load_context(prog, ci):
    """(load FunctionDef, defining class, cls(...) call, ctx, object variable name)."""
    c, fn = prog.find_method(ci, "load")
    if fn is None:
        raise AnalysisError(f"anchor vanished: {ci.name}.load")
    clsname = fn.args.args[0].arg
    call, var = None, None
    for st in ast.walk(fn):
        if isinstance(st, ast.Assign) and isinstance(st.value, ast.Call) and isinstance(st.value.func, ast.Name) \
                and st.value.func.id == clsname and isinstance(st.targets[0], ast.Name):
            call, var = st.value, st.targets[0].id
    if call is None:
        raise AnalysisError(f"anchor vanished: cls(...) call in {ci.name}.load")
    # abstract values of local names at the call (e.g. `bounds` is None on one arm, a Bounds on the other)
    env = {}
    for a in fn.args.args[1:]:
        env[a.arg] = UNKNOWN
    ctx = {}
    for k in call.keywords:
        if k.arg is not None:
            ctx[k.arg] = abstract_of(k.value, env)
    ic, init = prog.find_method(ci, "__init__")
    pos = [a.arg for a in init.args.args[1:]]
    for i, a in enumerate(call.args):
        if i < len(pos):
            ctx[pos[i]] = abstract_of(a, env)
    return fn, c, call, ctx, var


def load_assigned(fn, var):
    """Attributes assigned on the reloaded object inside load: definitely (on every path) / only under a guard."""
    def visit(stmts):
        """(assigned on every path through stmts, assigned on some path)"""
        must, may = set(), set()
        for st in stmts:
            if isinstance(st, ast.Assign):
                for t in st.targets:
                    if isinstance(t, ast.Attribute) and isinstance(t.value, ast.Name) and t.value.id == var:
                        must.add(t.attr)
                        may.add(t.attr)
            elif isinstance(st, ast.If):
                m1, a1 = visit(st.body)
                m2, a2 = visit(st.orelse)
                must |= (m1 & m2)
                may |= a1 | a2
            elif isinstance(st, (ast.For, ast.While)):
                m1, a1 = visit(st.body)
                may |= a1
            elif isinstance(st, (ast.Try, ast.With)):
                m1, a1 = visit(st.body)
                must |= m1
                may |= a1
        return must, may
    must, may = visit(fn.body)
    return must, may - must


def str_keys_read(fn, dname="D"):
    """Keys read as D["k"]: (unguarded, guarded).  guarded maps key -> guarding key: a read is guarded
    when it sits under `if "g" in D:` / `X if "g" in D else Y` or the key itself is tested by
    `all(k in D for k in [...])` somewhere in the function."""
    unguarded, guarded = {}, {}
    self_guards = set()
    for n in ast.walk(fn):
        if isinstance(n, ast.Compare) and len(n.ops) == 1 and isinstance(n.ops[0], ast.In) \
                and U(n.comparators[0]) == dname and isinstance(n.left, ast.Name):
            for g in ast.walk(fn):
                if isinstance(g, ast.comprehension) and U(g.target) == n.left.id and isinstance(g.iter, ast.List):
                    for e in g.iter.elts:
                        if isinstance(e, ast.Constant):
                            self_guards.add(e.value)

    def guard_keys(test):
        """Keys whose presence the test establishes: `"k" in D`, conjunctions of those, all(k in D for k in ["a", "b"])."""
        if isinstance(test, ast.Compare) and len(test.ops) == 1 and isinstance(test.ops[0], ast.In) \
                and U(test.comparators[0]) == dname and isinstance(test.left, ast.Constant):
            return frozenset([test.left.value])
        if isinstance(test, ast.BoolOp) and isinstance(test.op, ast.And):
            out = frozenset()
            for v in test.values:
                out |= guard_keys(v)
            return out
        if isinstance(test, ast.Call) and U(test.func) == "all" and len(test.args) == 1 \
                and isinstance(test.args[0], (ast.GeneratorExp, ast.ListComp)) and len(test.args[0].generators) == 1:
            g_ = test.args[0].generators[0]
            e_ = test.args[0].elt
            if isinstance(e_, ast.Compare) and len(e_.ops) == 1 and isinstance(e_.ops[0], ast.In) and U(e_.comparators[0]) == dname \
                    and U(e_.left) == U(g_.target) and isinstance(g_.iter, (ast.List, ast.Tuple)):
                return frozenset(x.value for x in g_.iter.elts if isinstance(x, ast.Constant))
        return frozenset()

    def visit(node, g):
        if isinstance(node, ast.If):
            k = guard_keys(node.test)
            for c in node.body:
                visit(c, (g or frozenset()) | k if (k or g) else None)
            for c in node.orelse:
                visit(c, g)
            return
        if isinstance(node, ast.IfExp):
            k = guard_keys(node.test)
            visit(node.body, (g or frozenset()) | k if (k or g) else None)
            visit(node.orelse, g)
            return
        if isinstance(node, ast.Subscript) and U(node.value) == dname and isinstance(node.slice, ast.Constant) \
                and isinstance(node.slice.value, str):
            key = node.slice.value
            if g:
                guarded.setdefault(key, key if key in g else sorted(g)[0])
            elif key in self_guards:
                guarded.setdefault(key, key)
            else:
                unguarded.setdefault(key, node.lineno)
        for c in ast.iter_child_nodes(node):
            visit(c, g)
    for st in fn.body:
        visit(st, None)
    return unguarded, guarded


def keys_written(prog, ci, fn):
    """(always, sometimes, value expr per key) written by save."""
    always, sometimes, values = set(), set(), {}
    conds = {}
    selfname = fn.args.args[0].arg

    def dict_keys(d, target, cond):
        for k, v in zip(d.keys, d.values):
            if isinstance(k, ast.Constant):
                (sometimes if cond else always).add(k.value)
                values[k.value] = v
                conds[k.value] = cond

    def visit(stmts, cond):
        for st in stmts:
            if isinstance(st, ast.Assign) and isinstance(st.value, ast.Dict):
                dict_keys(st.value, None, cond)
            elif isinstance(st, ast.Assign) and isinstance(st.targets[0], ast.Subscript) \
                    and isinstance(st.targets[0].slice, ast.Constant):
                k = st.targets[0].slice.value
                (sometimes if cond else always).add(k)
                values[k] = st.value
                conds[k] = cond
            elif isinstance(st, ast.AugAssign) and isinstance(st.op, ast.BitOr):
                if isinstance(st.value, ast.Dict):
                    dict_keys(st.value, None, cond)
                else:
                    _call_items(st.value, cond)
            elif isinstance(st, ast.Expr) and isinstance(st.value, ast.Call) and isinstance(st.value.func, ast.Attribute) \
                    and st.value.func.attr == "update" and st.value.args:
                a = st.value.args[0]
                if isinstance(a, ast.Dict):
                    dict_keys(a, None, cond)
                else:
                    _call_items(a, cond)
            elif isinstance(st, ast.If):
                visit(st.body, U(st.test))
                visit(st.orelse, "not " + U(st.test))
            elif isinstance(st, ast.For):
                # per-parameter items: handled by the Parameter pair
                visit_for(st, cond)

    def visit_for(st, cond):
        for s in st.body:
            if isinstance(s, ast.AugAssign) and isinstance(s.value, ast.Call):
                _call_items(s.value, cond)

    def _call_items(call, cond):
        if isinstance(call, ast.Call) and isinstance(call.func, ast.Attribute) and call.func.attr == "get_items":
            recv = U(call.func.value)
            if recv == f"{selfname}.ES":
                es = prog.cls("EpsilonSelector")
                gi = es.methods.get("get_items")
                if gi is not None and "__dict__" in U(gi):
                    for a in prog.attrs_assigned_in(es.methods["__init__"]):
                        (sometimes if cond else always).add(a)
                        values[a] = ast.parse(f"self.ES.{a}", mode="eval").body
    visit(fn.body, "")
    keys_written.conds = conds
    return always, sometimes, values


def param_key_suffixes(prog):
    """Suffixes written by Parameter.get_items and read by Parameter.load."""
    pc = prog.cls("Parameter")
    gi, ld = pc.methods.get("get_items"), pc.methods.get("load")
    if gi is None or ld is None:
        raise AnalysisError("anchor vanished: Parameter.get_items / Parameter.load")
    def split_key(k):
        """(prefix expression, literal suffix) of a per-parameter key: f"{prefix}suffix" or prefix + "suffix"."""
        if isinstance(k, ast.JoinedStr) and len(k.values) == 2 and isinstance(k.values[0], ast.FormattedValue) \
                and k.values[0].conversion == -1 and k.values[0].format_spec is None \
                and isinstance(k.values[1], ast.Constant) and isinstance(k.values[1].value, str):
            return k.values[0].value, k.values[1].value
        if isinstance(k, ast.BinOp) and isinstance(k.op, ast.Add) and isinstance(k.right, ast.Constant) and isinstance(k.right.value, str):
            return k.left, k.right.value
        return None
    written, wvals = set(), {}
    rw, rr = Resolver(gi, prog, pc.module, pc), Resolver(ld, prog, pc.module, pc)
    pre_w, pre_r = set(), set()
    for n in ast.walk(gi):
        if isinstance(n, ast.Dict):
            for k, v in zip(n.keys, n.values):
                sk = split_key(k) if k is not None else None
                if sk is not None:
                    written.add(sk[1])
                    wvals[sk[1]] = v
                    pre_w.add(str(U(rw.term(sk[0], rw.stmt_of(k)))))
    read = {}
    for n in ast.walk(ld):
        if isinstance(n, ast.Subscript):
            sk = split_key(n.slice)
            if sk is not None:
                read[sk[1]] = n.lineno
                pre_r.add(str(U(rr.term(sk[0], rr.stmt_of(n)))))
    pre_w, pre_r = sorted(pre_w), sorted(pre_r)
    return written, wvals, read, pre_w, pre_r, pc, gi, ld


def _derived_consistent(prog, ci, cname, lfn, lc, call, var, rel):
    """Attributes the constructor derives from one of its parameters travel together: if load leaves that parameter to its
    default and then overwrites some of those attributes from the file, it must overwrite (re-derive) all of them."""
    ic, init = prog.find_method(ci, "__init__")
    rz = Resolver(init, prog, ic.module, ic)
    params = [a.arg for a in init.args.args[1:]] + [a.arg for a in init.args.kwonlyargs]
    sn = init.args.args[0].arg
    attr_terms = {}
    for st in ast.walk(init):
        if isinstance(st, ast.Assign):
            for t in st.targets:
                if isinstance(t, ast.Attribute) and isinstance(t.value, ast.Name) and t.value.id == sn:
                    attr_terms.setdefault(t.attr, []).append(rz.term(st.value, st))
    dep = {p: set() for p in params}
    for a, terms in attr_terms.items():
        for t in terms:
            for n in ast.walk(t):
                if isinstance(n, ast.Name) and n.id in dep:
                    dep[n.id].add(a)
    changed = True
    while changed:                      # closure through attributes:  self.b = f(self.a)
        changed = False
        for a, terms in attr_terms.items():
            for t in terms:
                used = {n.attr for n in ast.walk(t) if isinstance(n, ast.Attribute) and isinstance(n.value, ast.Name) and n.value.id == sn}
                for p in params:
                    if used & dep[p] and a not in dep[p]:
                        dep[p].add(a)
                        changed = True
    passed = {k.arg for k in call.keywords if k.arg} | set(params[:len(call.args)])
    over = {}
    for st in ast.walk(lfn):
        if isinstance(st, ast.Assign):
            for t in st.targets:
                if isinstance(t, ast.Attribute) and isinstance(t.value, ast.Name) and t.value.id == var:
                    over[t.attr] = st
    why = []
    for p in params:
        if p in passed or len(dep[p]) < 2:
            continue
        hit = sorted(dep[p] & set(over))
        miss = sorted(dep[p] - set(over))
        if hit and miss:
            why.append(f"load leaves constructor parameter `{p}` at its default, then restores {hit} from the file, but {miss} - which the "
                       f"constructor derives from `{p}` - keep the values computed for the default")
    return struct_ob("derived-consistent", f"{ci.module.name}.{cname}.load", not why, "; ".join(why), rel, lfn.lineno,
                     slots={"derived_from": {p: sorted(v) for p, v in dep.items() if len(v) > 1}, "passed": sorted(passed)})


def _ctor_arg_roundtrip(prog, ci, cname, lfn, call, values, rel):
    """A value that load hands to the constructor instead of assigning it: save wrote key k from attribute a; load passes
    g(D[k]) for constructor parameter p; the constructor sets a = f(p).  The reloaded attribute is f(g(x)) and must be x again
    (HamiltonianChain: temperature = 1 / D["inv_temp"], inv_temp = 1 / temperature)."""
    out = []
    ic0, init0 = prog.find_method(ci, "__init__")
    if init0 is None:
        return out
    dname = None
    for n in ast.walk(lfn):
        if isinstance(n, ast.Subscript) and isinstance(n.slice, ast.Constant) and isinstance(n.slice.value, str) and isinstance(n.value, ast.Name):
            dname = n.value.id
            break
    if dname is None:
        return out
    given = {k.arg: k.value for k in call.keywords if k.arg}
    params0 = [a.arg for a in init0.args.args[1:]]
    for p_, a_ in zip(params0, call.args):
        given.setdefault(p_, a_)

    def ctor_defining(attr, p_):
        """The constructor in the MRO that assigns self.attr and has parameter p_ (a subclass constructor that forwards
        *args / **kwargs to super().__init__ hands the keyword on unchanged)."""
        for c in prog.mro(ci):
            fn = c.methods.get("__init__")
            if fn is None:
                continue
            names = [a.arg for a in fn.args.args[1:]] + [a.arg for a in fn.args.kwonlyargs]
            if p_ in names and any(isinstance(st, ast.Assign) and isinstance(st.targets[0], ast.Attribute) and st.targets[0].attr == attr
                                   for st in ast.walk(fn)):
                return c, fn, names
            if p_ not in names and not fn.args.kwarg:
                return None
        return None
    # which attribute does each saved key come from
    key_attr = {}
    for k, v in values.items():
        if isinstance(v, ast.Attribute) and isinstance(v.value, ast.Name) and v.value.id == "self":
            key_attr[k] = v.attr
    for p_, g in given.items():
        keys = [n.slice.value for n in ast.walk(g) if isinstance(n, ast.Subscript) and isinstance(n.value, ast.Name) and n.value.id == dname
                and isinstance(n.slice, ast.Constant) and isinstance(n.slice.value, str)]
        if len(keys) != 1 or keys[0] not in key_attr:
            continue
        key, attr = keys[0], key_attr[keys[0]]
        found = ctor_defining(attr, p_)
        if found is None:
            continue
        ic, init, params = found
        sn = init.args.args[0].arg
        rz = Resolver(init, prog, ic.module, ic)
        # the constructor's definition of that attribute, as a function of p
        defs = [st for st in ast.walk(init) if isinstance(st, ast.Assign) and len(st.targets) == 1 and isinstance(st.targets[0], ast.Attribute)
                and isinstance(st.targets[0].value, ast.Name) and st.targets[0].value.id == sn and st.targets[0].attr == attr]
        if len(defs) != 1:
            continue
        f = rz.term(defs[0].value, defs[0], keep=(p_,))
        if not any(isinstance(n, ast.Name) and n.id == p_ for n in ast.walk(f)) or any(
                isinstance(n, ast.Name) and n.id in params and n.id != p_ for n in ast.walk(f)):
            continue
        class Unwrap(ast.NodeTransformer):
            """float(x), int(x), bool(x), str(x), array(x), x.item() restore the Python type an .npz file erased: identities here"""
            def visit_Call(self, n):
                self.generic_visit(n)
                if isinstance(n.func, ast.Name) and n.func.id in ("float", "int", "bool", "str", "array", "asarray", "list", "tuple") \
                        and len(n.args) == 1 and not n.keywords:
                    return n.args[0]
                if isinstance(n.func, ast.Attribute) and n.func.attr in ("item", "tolist", "copy") and not n.args:
                    return n.func.value
                return n
        try:
            fa, _ = abstract(Unwrap().visit(ast.parse(U(f), mode="eval").body), [])
            ga, _ = abstract(Unwrap().visit(ast.parse(U(g), mode="eval").body), [(f"{dname}['{key}']", "X__")])
            fv = anf_of(fa)
            gv = anf_of(ga)
            comp = anf.subst(fv, {("sym", p_): gv})
            ok = comp.eq(R.sym("X__"))
            why = f"{attr} = f({p_}) with f = `{U(f)[:80]}`, {p_} = `{U(g)[:80]}`: reloaded {attr} = {comp} where {dname}['{key}'] = X__ was saved"
        except Unsupported:
            continue
        out.append(struct_ob("ctor-arg-roundtrip", f"{ci.module.name}.{cname}.load[{p_}]", ok,
                             f"save wrote key '{key}' from self.{attr}; load passes it through constructor parameter `{p_}`, and the "
                             f"constructor must reproduce the saved value: " + why, rel, lfn.lineno, tier="F", detail=p_))
    return out


def _factory_ctor_bindings(prog, mod, callee, args, kwargs, depth=0):
    """[(ClassInfo, {ctor parameter: argument expression})] for the objects `callee(*args, **kwargs)` may build: the callee is a
    class, or a module-level factory whose return statements are such calls with the factory's own parameters handed on."""
    out = []
    name = callee.id if isinstance(callee, ast.Name) else callee.attr if isinstance(callee, ast.Attribute) else None
    if name is None or depth > 2:
        return out
    if name in prog.classes:
        ci = prog.classes[name]
        ic, init = prog.find_method(ci, "__init__")
        if init is None:
            return out
        ps = [a.arg for a in init.args.args[1:]]
        b = dict(zip(ps, args))
        b.update({k: v for k, v in kwargs.items() if k in ps or init.args.kwarg})
        return [(ci, b)]
    fn = None
    for mi in prog.modules.values():
        if name in mi.functions:
            fn = mi.functions[name]
            break
    if fn is None:
        return out
    ps = [a.arg for a in fn.args.args]
    b = dict(zip(ps, args))
    b.update(kwargs)

    class Sub(ast.NodeTransformer):
        def visit_Name(self, n):
            if isinstance(n.ctx, ast.Load) and n.id in b:
                return copy.deepcopy(b[n.id])
            return n
    for r in ast.walk(fn):
        if isinstance(r, ast.Return) and isinstance(r.value, ast.Call):
            a2 = [Sub().visit(copy.deepcopy(a)) for a in r.value.args]
            k2 = {k.arg: Sub().visit(copy.deepcopy(k.value)) for k in r.value.keywords if k.arg}
            out.extend(_factory_ctor_bindings(prog, mod, r.value.func, a2, k2, depth + 1))
    return out


def _rebuilt_object_roundtrip(prog, ci, cname, lfn, var, values, rel):
    """A saved value that lives on a helper object: save wrote key k from self.<obj>.<attr>; load rebuilds the helper,
    <chain>.<obj> = F(.., g(D[k]), ..), and the class F builds sets <attr> = f(parameter).  What was saved is already an f(x):
    the reloaded attribute f(g(f(x))) must be f(x) again, for every class the factory can return."""
    out = []
    dname = None
    for n in ast.walk(lfn):
        if isinstance(n, ast.Subscript) and isinstance(n.slice, ast.Constant) and isinstance(n.slice.value, str) and isinstance(n.value, ast.Name):
            dname = n.value.id
            break
    if dname is None:
        return out
    nested = {}
    for k, v in values.items():
        if isinstance(v, ast.Attribute) and isinstance(v.value, ast.Attribute) and isinstance(v.value.value, ast.Name) \
                and v.value.value.id == "self":
            nested[k] = (v.value.attr, v.attr)
    rz = Resolver(lfn, prog, ci.module, ci)

    class Unwrap(ast.NodeTransformer):
        """float(x), int(x), array(x), x.copy() restore the Python type an .npz file erased, or copy: identities here"""
        def visit_Call(self, n):
            self.generic_visit(n)
            if isinstance(n.func, ast.Name) and n.func.id in ("float", "int", "bool", "str", "array", "asarray", "list", "tuple") \
                    and len(n.args) == 1 and not [k for k in n.keywords if k.arg != "dtype"]:
                return n.args[0]
            if isinstance(n.func, ast.Attribute) and n.func.attr in ("item", "tolist", "copy") and not n.args:
                return n.func.value
            return n

        def visit_IfExp(self, n):
            self.generic_visit(n)
            return n.body if U(n.body) == U(n.orelse) else n
    for key, (obj, attr) in sorted(nested.items()):
        sites = [st for st in ast.walk(lfn) if isinstance(st, ast.Assign) and len(st.targets) == 1 and isinstance(st.targets[0], ast.Attribute)
                 and isinstance(st.targets[0].value, ast.Name) and st.targets[0].value.id == var and st.targets[0].attr == obj
                 and isinstance(st.value, ast.Call)]
        if len(sites) != 1:
            continue
        st = sites[0]
        def merged(e):
            """a local re-bound on some path to a type-restoring wrapper of itself (`if x.ndim == 0: x = float(x)`) still names the
            one value all its definitions unwrap to"""
            t = rz.term(e, st, keep=(dname, var))
            for n in [x for x in ast.walk(t) if isinstance(x, ast.Name) and isinstance(x.ctx, ast.Load)]:
                dvals = [(d_, d_.value) for d_ in ast.walk(lfn) if isinstance(d_, ast.Assign) and len(d_.targets) == 1
                         and isinstance(d_.targets[0], ast.Name) and d_.targets[0].id == n.id]
                if len(dvals) < 2:
                    continue
                texts = set()
                for d_, v in dvals:
                    u = Unwrap().visit(ast.parse(U(rz.term(v, d_, keep=(dname, var, n.id))), mode="eval").body)
                    if not (isinstance(u, ast.Name) and u.id == n.id):
                        texts.add(U(u))
                if len(texts) == 1:
                    repl = ast.parse(next(iter(texts)), mode="eval").body

                    class S_(ast.NodeTransformer):
                        def visit_Name(self, x):
                            return copy.deepcopy(repl) if x.id == n.id and isinstance(x.ctx, ast.Load) else x
                    t = ast.fix_missing_locations(S_().visit(t))
            return t
        args = [merged(a) for a in st.value.args]
        kwargs = {k.arg: merged(k.value) for k in st.value.keywords if k.arg}
        for tci, bind in _factory_ctor_bindings(prog, ci.module, st.value.func, args, kwargs):
            fed = [p_ for p_, e in bind.items() if any(isinstance(n, ast.Subscript) and isinstance(n.value, ast.Name) and n.value.id == dname
                                                      and isinstance(n.slice, ast.Constant) and n.slice.value == key for n in ast.walk(e))]
            if len(fed) != 1:
                continue
            p_ = fed[0]
            g = bind[p_]
            # the constructor (through the MRO) that defines the attribute
            f = None
            cur_p = p_
            for c in prog.mro(tci):
                init = c.methods.get("__init__")
                if init is None:
                    continue
                sn = init.args.args[0].arg
                defs = [d for d in ast.walk(init) if isinstance(d, ast.Assign) and len(d.targets) == 1 and isinstance(d.targets[0], ast.Attribute)
                        and isinstance(d.targets[0].value, ast.Name) and d.targets[0].value.id == sn and d.targets[0].attr == attr]
                if defs:
                    rzi = Resolver(init, prog, c.module, c)
                    f = rzi.term(defs[-1].value, defs[-1], keep=(cur_p,))
                    break
                # forwarded to the base constructor: follow the parameter by position / keyword
                nxt = None
                for n in ast.walk(init):
                    if isinstance(n, ast.Call) and isinstance(n.func, ast.Attribute) and n.func.attr == "__init__":
                        for b in prog.mro(c)[1:]:
                            bi = b.methods.get("__init__")
                            if bi is None:
                                continue
                            bps = [a.arg for a in bi.args.args[1:]]
                            for i_, a in enumerate(n.args):
                                if isinstance(a, ast.Name) and a.id == cur_p and i_ < len(bps):
                                    nxt = bps[i_]
                            for k in n.keywords:
                                if isinstance(k.value, ast.Name) and k.value.id == cur_p:
                                    nxt = k.arg
                            break
                if nxt is None:
                    break
                cur_p = nxt
            if f is None:
                continue
            try:
                fa, _ = abstract(Unwrap().visit(ast.parse(U(f), mode="eval").body), [])
                ga, _ = abstract(Unwrap().visit(ast.parse(U(g), mode="eval").body), [(f"{dname}['{key}']", "X__")])
                fv, gv = anf_of(fa), anf_of(ga)
                once = anf.subst(fv, {("sym", cur_p): R.sym("X__")})            # what save wrote: f(x)
                again = anf.subst(fv, {("sym", cur_p): anf.subst(gv, {("sym", "X__"): once})})
                ok = again.eq(once)
                why = (f"{tci.name} sets {attr} = `{U(f)[:90]}` from `{cur_p}`; load hands it `{U(g)[:60]}`: a saved {attr} = {once} "
                       f"comes back as {again}")
            except Unsupported as e:
                raise AnalysisError(f"rebuilt-object-roundtrip: {tci.name}.{attr} as a function of `{cur_p}` is outside the algebra: {e}")
            out.append(struct_ob("rebuilt-object-roundtrip", f"{ci.module.name}.{cname}.load[{obj}.{attr}->{tci.name}]", ok,
                                 f"save wrote key '{key}' from self.{obj}.{attr}; load rebuilds self.{obj} from it, and the rebuilt object "
                                 f"must carry the saved value again: " + why, rel, st.lineno, tier="F", detail=tci.name))
    return out


def _keys_read_by_callees(prog, mi, lfn, dname, depth=0):
    """Keys of the loaded archive read by module-level helpers of the repository that load hands the archive to
    (`bounds = _load_bounds(D, "PcaChain")`): the literal subscripts of the receiving parameter, transitively."""
    out = set()
    if depth > 2:
        return out
    for n in ast.walk(lfn):
        if not (isinstance(n, ast.Call) and isinstance(n.func, ast.Name)):
            continue
        pos = [i for i, a in enumerate(n.args) if isinstance(a, ast.Name) and a.id == dname]
        kws = [k.arg for k in n.keywords if isinstance(k.value, ast.Name) and k.value.id == dname and k.arg]
        if not pos and not kws:
            continue
        callee, cmi = None, None
        if n.func.id in mi.functions:
            callee, cmi = mi.functions[n.func.id], mi
        else:
            q = mi.imports.get(n.func.id, "")
            if q.startswith("inference."):
                modname, _, nm = q.rpartition(".")
                m2 = prog.modules.get(modname)
                if m2 is not None and nm in m2.functions:
                    callee, cmi = m2.functions[nm], m2
        if callee is None:
            continue
        ps = [a.arg for a in callee.args.args]
        names = [ps[i] for i in pos if i < len(ps)] + [k for k in kws if k in ps]
        for pn in names:
            out |= {x.slice.value for x in ast.walk(callee) if isinstance(x, ast.Subscript) and isinstance(x.value, ast.Name)
                    and x.value.id == pn and isinstance(x.slice, ast.Constant) and isinstance(x.slice.value, str)}
            out |= _keys_read_by_callees(prog, cmi, callee, pn, depth + 1)
    return out


def _helper_pairing(prog, hc, lfn, var, key_attr, rel, key_of):
    """In the loader of a helper class every `<obj>.<attr> = conv(<archive>[key])` reads the key that was written from that very
    attribute, and restores the Python type the constructor gives it (a float read back through int() is truncated)."""
    wrong, lossy, n = [], [], 0
    init = hc.methods.get("__init__")
    ctor_vals = {}
    if init is not None:
        for st in ast.walk(init):
            if isinstance(st, ast.Assign) and len(st.targets) == 1 and isinstance(st.targets[0], ast.Attribute) \
                    and isinstance(st.targets[0].value, ast.Name) and st.targets[0].value.id == init.args.args[0].arg:
                ctor_vals.setdefault(st.targets[0].attr, []).append(st.value)
    for st in ast.walk(lfn):
        if not (isinstance(st, ast.Assign) and len(st.targets) == 1 and isinstance(st.targets[0], ast.Attribute)
                and isinstance(st.targets[0].value, ast.Name) and st.targets[0].value.id == var):
            continue
        keys = [key_of(x.slice) for x in ast.walk(st.value) if isinstance(x, ast.Subscript)]
        keys = [k for k in keys if k is not None]
        if len(keys) != 1 or keys[0] not in key_attr:
            continue
        n += 1
        attr = st.targets[0].attr
        if key_attr[keys[0]] != attr:
            wrong.append(f"line {st.lineno}: `{U(st)[:70]}` restores {attr} from the key written from {key_attr[keys[0]]}")
        conv = st.value.func.id if isinstance(st.value, ast.Call) and isinstance(st.value.func, ast.Name) else None
        cv = ctor_vals.get(attr, [])
        is_float = bool(cv) and all(isinstance(v, ast.Constant) and isinstance(v.value, float) for v in cv)
        if conv == "int" and is_float:
            lossy.append(f"line {st.lineno}: `{U(st)[:70]}` reads the float {attr} (constructor: {U(cv[0])}) back through int()")
    return [struct_ob("key-pairing", f"{hc.module.name}.{hc.name}.{lfn.name}", not wrong and n > 0, "; ".join(wrong[:2]), rel, lfn.lineno,
                      slots={"pairs_checked": n}, tier="E"),
            struct_ob("restored-type", f"{hc.module.name}.{hc.name}.{lfn.name}", not lossy, "; ".join(lossy[:2]), rel, lfn.lineno,
                      slots={"pairs_checked": n}, tier="E")]


def _load_forwards(prog, ci, cname, lfn, rel):
    """What the caller hands to load (the density, its gradient) reaches the reloaded sampler under its own name: as keyword
    `posterior=posterior`, or stored as `<chain>.posterior = posterior` - never into the slot / attribute of another argument."""
    params = [a.arg for a in lfn.args.args[2:]] + [a.arg for a in lfn.args.kwonlyargs]
    why = []
    n_uses = 0
    for n in ast.walk(lfn):
        if isinstance(n, ast.Call):
            for k in n.keywords:
                if isinstance(k.value, ast.Name) and k.value.id in params and k.arg is not None:
                    n_uses += 1
                    if k.arg != k.value.id and k.arg in params:
                        why.append(f"line {n.lineno}: `{k.arg}={k.value.id}` hands load's `{k.value.id}` to the parameter `{k.arg}`")
        elif isinstance(n, ast.Assign) and isinstance(n.value, ast.Name) and n.value.id in params:
            for t in n.targets:
                if isinstance(t, ast.Attribute):
                    n_uses += 1
                    if t.attr != n.value.id and t.attr in params:
                        why.append(f"line {n.lineno}: `{U(t)} = {n.value.id}` stores load's `{n.value.id}` as `{t.attr}`")
    # every such argument is used at all
    used = {x.id for x in ast.walk(lfn) if isinstance(x, ast.Name) and isinstance(x.ctx, ast.Load)}
    for p_ in params:
        if p_ not in used:
            why.append(f"load's argument `{p_}` is never used: the reloaded sampler cannot evaluate it")
    return struct_ob("load-forwards-arguments", f"{ci.module.name}.{cname}.load", not why, "; ".join(why[:3]), rel, lfn.lineno,
                     slots={"arguments": params, "uses": n_uses}, tier="E")


def _slot_reselected(prog, pc, ld, var, rel):
    """A bound-method slot (`self.proposal = self.<one of several>`) is chosen by selector methods from flag attributes.  load
    builds a fresh object and overwrites the flags from the file: the selector must run after the last flag it reads has been
    restored, or the reloaded object keeps the behaviour chosen for stale flags."""
    slots = {}
    for mname, fn in pc.methods.items():
        if not fn.args.args:
            continue
        sn = fn.args.args[0].arg
        for st in ast.walk(fn):
            if isinstance(st, ast.Assign) and len(st.targets) == 1 and isinstance(st.targets[0], ast.Attribute) \
                    and isinstance(st.targets[0].value, ast.Name) and st.targets[0].value.id == sn:
                cands = [st.value.body, st.value.orelse] if isinstance(st.value, ast.IfExp) else [st.value]
                if all(isinstance(v, ast.Attribute) and isinstance(v.value, ast.Name) and v.value.id == sn and v.attr in pc.methods
                       for v in cands):
                    slots.setdefault(st.targets[0].attr, set()).add(mname)
    selectors = {m for ms in slots.values() for m in ms if m != "__init__"}
    if not selectors:
        raise AnalysisError("anchor vanished: no method of Parameter selects a bound-method slot")
    # flags a selector reads: attributes of self loaded in its branch conditions
    flags = set()
    for m in selectors:
        fn = pc.methods[m]
        sn = fn.args.args[0].arg
        for n in ast.walk(fn):
            if isinstance(n, (ast.If, ast.IfExp)):
                for a in ast.walk(n.test):
                    if isinstance(a, ast.Attribute) and isinstance(a.value, ast.Name) and a.value.id == sn:
                        flags.add(a.attr)
    # methods (and property setters) that reach a selector / store a flag
    def calls_selector(fn, seen=()):
        sn = fn.args.args[0].arg
        for n in ast.walk(fn):
            if isinstance(n, ast.Call) and isinstance(n.func, ast.Attribute) and isinstance(n.func.value, ast.Name) and n.func.value.id == sn:
                if n.func.attr in selectors:
                    return True
                sub = pc.methods.get(n.func.attr)
                if sub is not None and n.func.attr not in seen and calls_selector(sub, seen + (n.func.attr,)):
                    return True
        return False
    events = []          # (statement index, kind, what) in execution order of load's straight-line body
    for i, st in enumerate(ld.body):
        for n in ast.walk(st):
            if isinstance(n, ast.Attribute) and isinstance(n.value, ast.Name) and n.value.id == var and isinstance(n.ctx, ast.Store):
                setter = pc.methods.get(n.attr + ".setter")
                if setter is not None:
                    for a in prog.attrs_assigned_in(setter):
                        if a in flags:
                            events.append((i, "store", a))
                    if calls_selector(setter):
                        events.append((i, "select", n.attr + " (setter)"))
                elif n.attr in flags:
                    events.append((i, "store", n.attr))
            if isinstance(n, ast.Call) and isinstance(n.func, ast.Attribute) and isinstance(n.func.value, ast.Name) and n.func.value.id == var:
                m = pc.methods.get(n.func.attr)
                if n.func.attr in selectors or (m is not None and calls_selector(m)):
                    events.append((i, "select", n.func.attr))
    stores = [(k, e) for k, e in enumerate(events) if e[1] == "store"]
    selects = [k for k, e in enumerate(events) if e[1] == "select"]
    stale = [e[2] for k, e in stores if not any(sk > k for sk in selects)]
    msg = ""
    if stale:
        msg = (f"load restores the flags {sorted(set(stale))} after the last run of the slot selector "
               f"({sorted(selectors)} choose {sorted(slots)} from {sorted(flags)}): the reloaded object keeps the method chosen for the "
               f"stale flags, so it continues differently from the object that was saved")
    return struct_ob("slot-reselected", f"{pc.module.name}.{pc.name}.load", bool(stores) and not stale, msg or "no flag restored", rel,
                     ld.lineno, slots={"slots": sorted(slots), "selectors": sorted(selectors), "flags": sorted(flags),
                                       "events": [f"{e[1]}:{e[2]}" for e in events]})


LIST_ONLY = {"append", "extend", "insert", "pop", "remove"}
WRITERS = {"savez", "savez_compressed"}


def _restore_targets(owner, lfn, var, rel):
    """Every attribute store in a loader goes to the object being rebuilt (or to something reached from it / built locally): a
    store on the archive or on another argument (`D.inv_temp = float(D["inv_temp"])`) is accepted by Python - an NpzFile or a dict
    subclass takes attributes - and leaves the rebuilt object at its constructor default."""
    params = {a.arg for a in lfn.args.args + lfn.args.kwonlyargs}
    archives = set()
    for st in ast.walk(lfn):
        if isinstance(st, ast.Assign) and len(st.targets) == 1 and isinstance(st.targets[0], ast.Name) and isinstance(st.value, ast.Call):
            f = st.value.func
            if (f.id if isinstance(f, ast.Name) else f.attr if isinstance(f, ast.Attribute) else None) == "load":
                archives.add(st.targets[0].id)
    foreign = (params | archives) - {var}
    bad, n = [], 0
    for st in ast.walk(lfn):
        tgts = st.targets if isinstance(st, ast.Assign) else [st.target] if isinstance(st, (ast.AugAssign, ast.AnnAssign)) else []
        for t in tgts:
            for el in (t.elts if isinstance(t, (ast.Tuple, ast.List)) else [t]):
                if not isinstance(el, ast.Attribute):
                    continue
                b = el
                while isinstance(b, (ast.Attribute, ast.Subscript)):
                    b = b.value
                if not isinstance(b, ast.Name):
                    continue
                if b.id == var:
                    n += 1
                elif b.id in foreign:
                    bad.append(f"line {st.lineno}: `{U(st)[:80]}` stores on `{b.id}` (the archive / an argument), not on the rebuilt object `{var}`")
    # ... and what was restored is not edited afterwards: no in-place re-ordering / trimming of a restored attribute
    for st in ast.walk(lfn):
        if isinstance(st, ast.Expr) and isinstance(st.value, ast.Call) and isinstance(st.value.func, ast.Attribute) \
                and st.value.func.attr in ("sort", "reverse", "pop", "remove", "clear", "insert", "shuffle", "resize", "fill"):
            b = st.value.func.value
            while isinstance(b, (ast.Attribute, ast.Subscript)):
                b = b.value
            if isinstance(b, ast.Name) and b.id == var and isinstance(st.value.func.value, ast.Attribute):
                bad.append(f"line {st.lineno}: `{U(st)[:80]}` edits a restored attribute in place: the reloaded object differs from the saved one")
    return struct_ob("restore-target", owner, not bad and n > 0, "; ".join(bad[:2]) or "no attribute restored on the rebuilt object", rel, lfn.lineno,
                     slots={"stores_on_rebuilt_object": n}, tier="E")


def _list_uses(prog, ci):
    """{attribute: (level, where)}: attributes of ci used through list-only methods (`self.a.append(..)` level 0, `self.a[i].append(..)`
    level 1) anywhere in the class, its bases and its subclasses."""
    out = {}
    classes = list(prog.mro(ci)) + list(prog.subclasses(ci.name))
    for c in classes:
        for fn in c.methods.values():
            if not fn.args.args:
                continue
            sn = fn.args.args[0].arg
            for n in ast.walk(fn):
                if isinstance(n, ast.Call) and isinstance(n.func, ast.Attribute) and n.func.attr in LIST_ONLY:
                    r, lvl = n.func.value, 0
                    if isinstance(r, ast.Subscript):
                        r, lvl = r.value, 1
                    if isinstance(r, ast.Attribute) and isinstance(r.value, ast.Name) and r.value.id == sn:
                        out.setdefault((r.attr, lvl), f"{c.name}.{fn.name} line {n.lineno}: `{U(n)[:60]}`")
    return out


def _array_valued(e, archives):
    """The expression is certainly a numpy array: an archive entry as read, a slice of one, or an array constructor."""
    if isinstance(e, ast.Subscript):
        b = e
        while isinstance(b, ast.Subscript):
            b = b.value
        return isinstance(b, ast.Name) and b.id in archives and not isinstance(e.slice, ast.Constant) or \
            (isinstance(e.value, ast.Name) and e.value.id in archives)
    if isinstance(e, ast.Call):
        f = e.func
        nm = f.id if isinstance(f, ast.Name) else f.attr if isinstance(f, ast.Attribute) else None
        return nm in ("array", "asarray", "copy", "stack", "concatenate", "atleast_1d")
    return False


def _restored_containers(prog, ci, owner, lfn, var, archives, rel):
    """An attribute the class grows with list methods is restored as a list (and a list of lists as lists): an archive entry is an
    ndarray, and `ndarray.append` does not exist - the reloaded sampler could not take its next step."""
    uses = _list_uses(prog, ci)
    bad, n = [], 0
    for st in ast.walk(lfn):
        if not (isinstance(st, ast.Assign) and len(st.targets) == 1 and isinstance(st.targets[0], ast.Attribute)
                and isinstance(st.targets[0].value, ast.Name) and st.targets[0].value.id == var):
            continue
        a, v = st.targets[0].attr, st.value
        if (a, 0) in uses:
            n += 1
            if _array_valued(v, archives):
                bad.append(f"line {st.lineno}: `{U(st)[:80]}` restores an array, but {uses[(a, 0)]} needs a list")
        if (a, 1) in uses:
            n += 1
            elt = v.elt if isinstance(v, ast.ListComp) else None
            gen_vars = {x.id for g in v.generators for x in ast.walk(g.target) if isinstance(x, ast.Name)} if elt is not None else set()
            if _array_valued(v, archives) or (elt is not None and (isinstance(elt, ast.Name) and elt.id in gen_vars and
                                                                  any(_array_valued(g.iter, archives) for g in v.generators))):
                bad.append(f"line {st.lineno}: `{U(st)[:80]}` restores rows of an array, but {uses[(a, 1)]} needs lists")
    return struct_ob("restored-container", owner, not bad, "; ".join(bad[:2]), rel, lfn.lineno, slots={"list_attributes_restored": n}, tier="E")


def _state_unshared(prog, ci, owner, lfn, var, rel):
    """No two attributes of one sampler share memory when the class updates one of them item by item: `load` (or any method)
    binding `x.walkers = x.sample[-n:]` makes the per-walker stores of the next step write through into the stored history,
    so samples already reported change after save / load / continue.  Views, slices, reshapes and the receiver's own methods
    are followed (own._state_path); a copy, an arithmetic result or a fresh array ends the path."""
    from ..own import _state_aliases, _state_path, LIST_MUTATORS
    mro = prog.mro(ci)
    methods = {}
    for c in reversed(mro):
        methods.update(c.methods)
    # attributes the class updates in place, item by item (or through a mutating method / out=)
    written = {}
    for mname, fn in methods.items():
        if not fn.args.args:
            continue
        me = fn.args.args[0].arg

        def attr_of(e):
            while isinstance(e, ast.Subscript):
                e = e.value
            if isinstance(e, ast.Attribute) and isinstance(e.value, ast.Name) and e.value.id == me:
                return e.attr
            return None
        for st in ast.walk(fn):
            tg = []
            if isinstance(st, ast.Assign):
                tg = [x for t in st.targets for x in (t.elts if isinstance(t, (ast.Tuple, ast.List)) else [t]) if isinstance(x, ast.Subscript)]
            elif isinstance(st, ast.AugAssign) and isinstance(st.target, ast.Subscript):
                tg = [st.target]
            for t in tg:
                a = attr_of(t)
                if a:
                    written.setdefault(a, (mname, st.lineno, ast.unparse(st)[:70]))
            if isinstance(st, ast.Expr) and isinstance(st.value, ast.Call) and isinstance(st.value.func, ast.Attribute) \
                    and st.value.func.attr in ("sort", "fill", "partition", "put", "resize"):
                a = attr_of(st.value.func.value)
                if a:
                    written.setdefault(a, (mname, st.lineno, ast.unparse(st)[:70]))
    bad, n = [], 0
    sites = [(lfn, var)] + [(fn, fn.args.args[0].arg) for m, fn in methods.items()
                            if fn is not lfn and fn.args.args and not any(U(d) in ("staticmethod", "classmethod") for d in fn.decorator_list)]
    for fn, me in sites:
        alias = _state_aliases(fn, {me: "self"}, {k: v for k, v in methods.items() if v is not fn})
        for st in ast.walk(fn):
            if not (isinstance(st, ast.Assign) and len(st.targets) == 1 and isinstance(st.targets[0], ast.Attribute)
                    and isinstance(st.targets[0].value, ast.Name) and st.targets[0].value.id == me):
                continue
            x = st.targets[0].attr
            n += 1
            for p_ in sorted(_state_path(st.value, alias)):
                parts = p_.split(".")
                if len(parts) < 2 or parts[0] != "self":
                    continue
                y = parts[1].split("[")[0]
                if y == x:
                    continue
                w = written.get(x) or written.get(y)
                if w and len(parts) == 2 and not parts[1].endswith("[]"):
                    bad.append(f"line {st.lineno}: `{U(st)[:90]}` makes {x} a view of the stored {y}, and {w[0]} (line {w[1]}: `{w[2]}`) updates "
                               f"it item by item: the stores write through into {y}")
    return struct_ob("state-unshared", owner, not bad, "; ".join(bad[:2]), rel, lfn.lineno,
                     slots={"attribute_bindings": n, "item_updated": sorted(written)}, tier="E")


def _restored_types(prog, ci, owner, lfn, var, rel):
    """`chain.a = int(D[k])` where the constructor gives `a` a float (a float literal, or a parameter whose default is one): the
    reloaded value is truncated."""
    floats = {}
    for c in prog.mro(ci):
        init = c.methods.get("__init__")
        if init is None or not init.args.args:
            continue
        sn = init.args.args[0].arg
        params = init.args.args[1:] + init.args.kwonlyargs
        defaults = dict(zip([a.arg for a in init.args.args][len(init.args.args) - len(init.args.defaults):], init.args.defaults))
        defaults.update({a.arg: d for a, d in zip(init.args.kwonlyargs, init.args.kw_defaults) if d is not None})
        for st in ast.walk(init):
            if isinstance(st, ast.Assign) and len(st.targets) == 1 and isinstance(st.targets[0], ast.Attribute) \
                    and isinstance(st.targets[0].value, ast.Name) and st.targets[0].value.id == sn:
                v = st.value
                if isinstance(v, ast.Name) and v.id in defaults:
                    v = defaults[v.id]
                if isinstance(v, ast.Constant) and isinstance(v.value, float):
                    floats.setdefault(st.targets[0].attr, U(v))
    lossy, n = [], 0
    for st in ast.walk(lfn):
        if isinstance(st, ast.Assign) and len(st.targets) == 1 and isinstance(st.targets[0], ast.Attribute) \
                and isinstance(st.targets[0].value, ast.Name) and st.targets[0].value.id == var:
            n += 1
            a = st.targets[0].attr
            if a in floats and isinstance(st.value, ast.Call) and isinstance(st.value.func, ast.Name) and st.value.func.id == "int":
                lossy.append(f"line {st.lineno}: `{U(st)[:70]}` reads the float {a} (constructor: {floats[a]}) back through int()")
    return struct_ob("restored-type", owner, not lossy, "; ".join(lossy[:2]), rel, lfn.lineno, slots={"restores_checked": n, "float_attributes": len(floats)},
                     tier="E")


def _save_writes(owner, sfn, rel):
    """Every way through save that ends normally has written the archive (`savez` / `savez_compressed` with the collected items)."""
    # a local that holds the writer (`write = savez_compressed if compressed else savez`)
    writers = set(WRITERS)

    def is_writer(e):
        if isinstance(e, ast.IfExp):
            return is_writer(e.body) and is_writer(e.orelse)
        return (isinstance(e, ast.Name) and e.id in writers) or (isinstance(e, ast.Attribute) and e.attr in WRITERS)
    for _ in range(2):
        for st_ in ast.walk(sfn):
            if isinstance(st_, ast.Assign) and len(st_.targets) == 1 and isinstance(st_.targets[0], ast.Name) and is_writer(st_.value):
                writers.add(st_.targets[0].id)

    def writes(st):
        return any(isinstance(c, ast.Call) and is_writer(c.func) and (c.keywords or len(c.args) > 1) for c in ast.walk(st))

    def must(stmts):
        """(written on every path that falls through, some path returns without having written)"""
        done, leak = False, False
        for st in stmts:
            if isinstance(st, ast.If):
                d1, l1 = must(st.body)
                d2, l2 = must(st.orelse)
                leak = leak or ((l1 or l2) and not done)
                done = done or (d1 and d2) or writes(st.test)
            elif isinstance(st, (ast.With, ast.Try)):
                d1, l1 = must(st.body)
                leak = leak or (l1 and not done)
                done = done or d1
            elif isinstance(st, ast.Return):
                if not done and not (st.value is not None and writes(st.value)):
                    leak = True
                return done or True, leak
            elif isinstance(st, ast.Raise):
                return True, leak
            elif not isinstance(st, (ast.For, ast.While, ast.FunctionDef)) and writes(st):
                done = True
        return done, leak
    done, leak = must(sfn.body)
    n = sum(1 for c in ast.walk(sfn) if isinstance(c, ast.Call) and is_writer(c.func))
    if n == 0:
        raise AnalysisError(f"anchor vanished: no savez / savez_compressed call in {owner}")
    # what is written is what the sampler holds: no conversion to a narrower type on the way into the archive
    WIDE_ = ("float", "float64", "'float64'", '"float64"', "double", "'double'", "np.float64", "numpy.float64", "'f8'", "int", "int64", "'int64'", "bool", "object")
    narrow = []
    for x in ast.walk(sfn):
        if isinstance(x, ast.Call):
            dt = next((k.value for k in x.keywords if k.arg == "dtype"), None)
            if isinstance(x.func, ast.Attribute) and x.func.attr == "astype" and x.args:
                dt = x.args[0]
            if dt is not None and U(dt) not in WIDE_:
                narrow.append(f"line {x.lineno}: `{U(x)[:70]}`")
            # ... or a function that changes values / shape / order of what is held (rounding, squeezing away an axis, sorting)
            nm_ = U(x.func).split(".")[-1]
            if nm_ in ("round", "around", "round_", "rint", "floor", "ceil", "trunc", "clip", "unique", "squeeze", "sort", "sorted", "ravel", "flatten") \
                    and any(isinstance(y, ast.Attribute) and isinstance(y.value, ast.Name) and y.value.id == sfn.args.args[0].arg for y in ast.walk(x)):
                narrow.append(f"line {x.lineno}: `{U(x)[:70]}`")
    if narrow:
        return struct_ob("save-writes", owner, False, "the saved values are converted (type, rounding, shape, order) on the way into the archive: " + "; ".join(narrow[:2])
                         + " - the reloaded sampler continues from other numbers", rel, sfn.lineno, slots={"writer_calls": n}, tier="E")
    return struct_ob("save-writes", owner, done and not leak, "a path through save ends without writing the archive "
                     "(one arm of a branch has no savez / savez_compressed call, or a return comes first)", rel, sfn.lineno,
                     slots={"writer_calls": n}, tier="E")


def run(prog, tier):
    # a reloaded sampler continues like the saved one only if the hook that enforces its limits is bound exactly when limits
    # are restored - on the constructor path load() takes too (no starting positions yet): the clause C09 shares with C04
    from .common import borrow
    shared = borrow(prog, tier, "C04", {"slot-binding"}, "reloaded-limit-hook",
                    "load() rebuilds the object through the constructor; the limit-enforcing slot must be bound on that path as well")
    obs, info = [], []
    obs.extend(shared)
    # "continues like the saved one, given the same generator state" only means something if every draw a step makes comes from the
    # generator the sampler holds: the clause C09 shares with C15, decided there
    obs.extend(borrow(prog, tier, "C15", {"randomness-owned"}, "draws-from-own-generator",
                      "a draw from a process-wide generator is not part of what is saved or handed to the reloaded sampler: the reloaded "
                      "chain cannot continue as the saved one would have"))
    ts = Typestate(prog)

    # ------------------------------------------------------------ Parameter / EpsilonSelector pairs
    written, wvals, read, pre_w, pre_r, pc, gi, ld = param_key_suffixes(prog)
    rel = pc.module.relpath
    missing = sorted(set(read) - written)
    obs.append(struct_ob("key-agreement", qual(pc, ld), not missing and pre_w == pre_r and bool(read),
                         f"Parameter.load reads suffixes {missing} that get_items never writes (prefixes {pre_w} / {pre_r})",
                         rel, ld.lineno, slots={"written": len(written), "read": len(read)}))
    # Parameter state mutated by stepping is persisted and restored
    pwrites = {}
    for m in ("add_sample", "standard_proposal", "abs_proposal", "boundary_proposal", "submit_accept_prob"):
        pwrites.update(ts.writes(pc, m))
    restored = set()
    var = None
    for st in ld.body:
        if isinstance(st, ast.Assign) and isinstance(st.value, ast.Call) and U(st.value.func) == ld.args.args[0].arg:
            var = st.targets[0].id
    for st in ast.walk(ld):
        if isinstance(st, ast.Assign):
            for t in st.targets:
                if isinstance(t, ast.Attribute) and isinstance(t.value, ast.Name) and t.value.id == var:
                    restored.add(t.attr)
    saved_attrs = {U(v).split(".", 1)[1] for v in wvals.values() if U(v).startswith("self.")}
    lost = sorted(a for a in pwrites if a not in saved_attrs or a not in restored)
    obs.append(struct_ob("state-persisted", qual(pc, gi), not lost,
                         f"Parameter attributes mutated by stepping but not saved+restored: {lost}", rel, gi.lineno,
                         slots={"mutated": sorted(pwrites), "saved": len(saved_attrs), "restored": len(restored)}))
    obs.append(_slot_reselected(prog, pc, ld, var, rel))
    obs.append(_restore_targets(qual(pc, ld), ld, var, rel))
    obs.append(_restored_containers(prog, pc, qual(pc, ld), ld, var, {a.arg for a in ld.args.args[1:]}, rel))
    # key pairing and type restoration of the two helper classes (Parameter: suffix -> attribute; EpsilonSelector: key == attribute)
    obs.extend(_helper_pairing(prog, pc, ld, var, {sfx: U(v).split(".", 1)[1] for sfx, v in wvals.items() if U(v).startswith("self.")}, rel,
                               lambda sl: (lambda sk: sk[1] if sk is not None else None)(
                                   (sl.values[0].value, sl.values[1].value) if isinstance(sl, ast.JoinedStr) and len(sl.values) == 2
                                   and isinstance(sl.values[1], ast.Constant) else
                                   (sl.left, sl.right.value) if isinstance(sl, ast.BinOp) and isinstance(sl.right, ast.Constant) else None)))
    # the step-size / width adaptation tests `~(lo < rate < hi)`: after load the accumulators are Python floats, so the test only
    # keeps its meaning if one side of each comparison is certainly a numpy value
    obs.extend(invert_hazard_obligations(prog, "adaptation-test-survives-reload", ["inference/mcmc/gibbs.py", "inference/mcmc/hmc/epsilon.py"]))
    es = prog.cls("EpsilonSelector")
    erel = es.module.relpath
    li = es.methods.get("load_items")
    if li is None:
        raise AnalysisError("anchor vanished: EpsilonSelector.load_items")
    es_attrs = prog.attrs_assigned_in(es.methods["__init__"])
    es_read = {n.slice.value for n in ast.walk(li) if isinstance(n, ast.Subscript) and isinstance(n.slice, ast.Constant)
               and isinstance(n.slice.value, str)}
    es_restored = prog.attrs_assigned_in(li)
    obs.append(struct_ob("key-agreement", qual(es, li), es_read <= es_attrs and bool(es_read),
                         f"EpsilonSelector.load_items reads {sorted(es_read - es_attrs)} not in __dict__", erel, li.lineno))
    obs.extend(_helper_pairing(prog, es, li, li.args.args[0].arg, {a: a for a in es_attrs}, erel,
                               lambda sl: sl.value if isinstance(sl, ast.Constant) and isinstance(sl.value, str) else None))
    obs.append(_restore_targets(qual(es, li), li, li.args.args[0].arg, erel))
    obs.append(_restored_containers(prog, es, qual(es, li), li, li.args.args[0].arg, {a.arg for a in li.args.args[1:]}, erel))
    # saved => restored: whatever get_items / __dict__ writes is read back (a value that is saved but never read leaves the reloaded
    # object at its constructor default: its limits, its target rate, its step-size state are then not those that were saved)
    unread = sorted(set(written) - set(read))
    obs.append(struct_ob("saved-key-restored", qual(pc, ld), not unread,
                         f"Parameter.get_items writes the suffixes {unread}, which Parameter.load never reads", rel, ld.lineno,
                         slots={"written": len(written), "read": len(read)}))
    es_unread = sorted(a for a in es_attrs if a not in es_read)
    es_unassigned = sorted(a for a in es_read if a not in es_restored)
    obs.append(struct_ob("saved-key-restored", qual(es, li), not es_unread and not es_unassigned,
                         f"EpsilonSelector saves its __dict__; load_items never reads {es_unread} / never assigns {es_unassigned}", erel, li.lineno,
                         slots={"saved": len(es_attrs), "read": len(es_read)}))
    es_writes = {}
    for m in ("add_probability",):
        es_writes.update(ts.writes(es, m))
    lost = sorted(a for a in es_writes if a not in es_attrs or a not in es_restored)
    obs.append(struct_ob("state-persisted", qual(es, li), not lost,
                         f"EpsilonSelector attributes mutated by stepping but not restored: {lost}", erel, li.lineno,
                         slots={"mutated": sorted(es_writes)}))

    # ------------------------------------------------------------ the sampler pairs
    for cname in PAIRS:
        ci = prog.cls(cname)
        rel = ci.module.relpath
        lfn, lc, call, ctx, var = load_context(prog, ci)
        sc, sfn = prog.find_method(ci, "save")
        if sfn is None:
            raise AnalysisError(f"anchor vanished: {cname}.save")
        own_pair = (lc.name == cname)
        tag = "" if own_pair else f"[{cname}]"

        # key agreement (once per defining class)
        if own_pair:
            ung, gd = str_keys_read(lfn)
            always, sometimes, values = keys_written(prog, ci, sfn)
            conds = keys_written.conds
            m1 = sorted(k for k in ung if k not in always)
            # a read guarded by key g is fine when the key is written whenever g is written
            m2 = sorted(k for k, g in gd.items() if not (k in always or (k in sometimes and g in sometimes
                                                                       and conds.get(k) == conds.get(g))))
            obs.append(struct_ob("key-agreement", qual(lc, lfn), not m1 and not m2 and bool(ung),
                                 f"load reads keys {m1 + m2} that save does not (always) write", rel, lfn.lineno,
                                 slots={"read": len(ung) + len(gd), "always": len(always), "sometimes": len(sometimes)}))

        # constructor typestate in the load context and in the ordinary context
        A_load = ts.ctor(ci, ctx)
        definite, guarded_l = load_assigned(lfn, var)
        A_ord = ts.ctor(ci, {})
        cls_level = ts.class_level(ci)
        have_load = A_load.assigned | definite | cls_level
        have_ord = A_ord.assigned | cls_level

        for entry in ENTRIES:
            ec, efn = prog.find_method(ci, entry)
            if efn is None:
                continue
            R = ts.reads(ci, entry)
            miss = {a: w for a, w in R.items() if a not in have_load and a in have_ord}
            msg = ""
            if miss:
                a, w = sorted(miss.items())[0]
                msg = (f"after {cname}.load the attribute(s) {sorted(miss)} read by {entry} "
                       f"(first at {w[0]}.{w[1]} line {w[2]}) are undefined; the constructor path taken by load "
                       f"(arguments {ctx}) does not assign them and load does not restore them")
            obs.append(struct_ob("reload-defined", f"{ci.module.name}.{cname}.load->{entry}", not miss, msg, rel,
                                 lfn.lineno, detail=",".join(sorted(miss)),
                                 slots={"reads": len(R), "ctor_ctx": ctx}))

        # save reads only attributes that exist at any point of life
        Rs = ts.reads(ci, "save")
        miss = sorted(a for a in Rs if a not in have_ord)
        obs.append(struct_ob("save-defined", f"{ci.module.name}.{cname}.save", not miss,
                             f"save reads {miss}, which a freshly constructed {cname} does not define "
                             f"(assigned only later, e.g. by an adaptation event)", rel, sfn.lineno,
                             detail=",".join(miss), slots={"reads": sorted(Rs)}))

        # restored-value-flow: every key passed to the constructor is consumed on the path taken
        if own_pair:
            dropped = []
            for k in call.keywords:
                keys = [n.slice.value for n in ast.walk(k.value) if isinstance(n, ast.Subscript)
                        and U(n.value) == "D" and isinstance(n.slice, ast.Constant)]
                if keys and k.arg not in A_load.used_params:
                    dropped.append((k.arg, keys))
            # keys read into locals that never reach the object
            obs.append(struct_ob("restored-value-flow", qual(lc, lfn), not dropped,
                                 f"value(s) read from the file are passed to constructor parameter(s) "
                                 f"{[d[0] for d in dropped]} (keys {[d[1] for d in dropped]}) which the constructor ignores "
                                 f"on the path taken by load ({ctx})", rel, lfn.lineno,
                                 detail=",".join(d[0] for d in dropped), slots={"ctor_used": sorted(A_load.used_params)}))

        # key-pairing: chain.X = f(D["k"]) must read the key that save wrote from self.X
        if own_pair:
            always_, sometimes_, values_ = keys_written(prog, ci, sfn)
            wrong = []
            n_pairs = 0
            for st in ast.walk(lfn):
                if isinstance(st, ast.Assign) and len(st.targets) == 1 and isinstance(st.targets[0], ast.Attribute) \
                        and isinstance(st.targets[0].value, ast.Name) and st.targets[0].value.id == var:
                    keys = {n.slice.value for n in ast.walk(st.value) if isinstance(n, ast.Subscript)
                            and U(n.value) == "D" and isinstance(n.slice, ast.Constant)}
                    if len(keys) != 1:
                        continue
                    k = keys.pop()
                    if k not in values_:
                        continue
                    roots = set()
                    for n in ast.walk(values_[k]):
                        if isinstance(n, ast.Attribute) and isinstance(n.value, ast.Name) and n.value.id == "self":
                            roots.add(n.attr)
                    # the stored count written as the length of the store it counts (C15.length-pair: they are equal after every step)
                    v_k = values_[k]
                    if k == "chain_length" and isinstance(v_k, ast.Call) and U(v_k.func) == "len" and len(v_k.args) == 1 \
                            and U(v_k.args[0]).startswith("self.") and st.targets[0].attr == "chain_length":
                        roots = {"chain_length"}
                    if len(roots) != 1:
                        continue
                    n_pairs += 1
                    if roots != {st.targets[0].attr}:
                        wrong.append(f"{var}.{st.targets[0].attr} <- D['{k}'] but save wrote '{k}' from self.{roots.pop()}")
            obs.append(struct_ob("key-pairing", qual(lc, lfn), not wrong and n_pairs > 0,
                                 "load assigns attributes from keys that save wrote from a different attribute: " + "; ".join(wrong),
                                 rel, lfn.lineno, slots={"pairs_checked": n_pairs}))

        # stack-roundtrip: a list of vectors saved with array(list) (stacked along axis 0) is rebuilt from axis 0
        if own_pair:
            always_, sometimes_, values_ = keys_written(prog, ci, sfn)
            aliases = {}
            for st_ in lfn.body:
                if isinstance(st_, ast.Assign) and isinstance(st_.targets[0], ast.Name) and isinstance(st_.value, ast.Subscript) \
                        and U(st_.value.value) == "D" and isinstance(st_.value.slice, ast.Constant):
                    aliases[st_.targets[0].id] = st_.value.slice.value
            bad, n_rt = [], 0
            # `chain.X = list(A)` with A the archive entry (or a local holding it): iterating an array walks axis 0 - the rows as stacked
            for st_ in ast.walk(lfn):
                if isinstance(st_, ast.Assign) and isinstance(st_.targets[0], ast.Attribute) and U(st_.targets[0].value) == var \
                        and isinstance(st_.value, ast.Call) and isinstance(st_.value.func, ast.Name) and st_.value.func.id == "list" and len(st_.value.args) == 1:
                    a0 = st_.value.args[0]
                    key = a0.slice.value if isinstance(a0, ast.Subscript) and U(a0.value) == "D" and isinstance(a0.slice, ast.Constant) else \
                        aliases.get(a0.id) if isinstance(a0, ast.Name) else None
                    if key is not None and key in values_:
                        saved = values_[key]
                        if ((isinstance(saved, ast.Call) and U(saved.func) == "array") and any(
                                isinstance(x_, ast.Attribute) and U(x_) == f"self.{st_.targets[0].attr}" for x_ in ast.walk(saved))) \
                                or U(saved) == f"self.{st_.targets[0].attr}":
                            n_rt += 1
            for st_ in ast.walk(lfn):
                if not (isinstance(st_, ast.Assign) and isinstance(st_.value, ast.ListComp)
                        and isinstance(st_.targets[0], ast.Attribute) and U(st_.targets[0].value) == var):
                    continue
                lcomp = st_.value
                g = lcomp.generators[0]
                elt = lcomp.elt
                if not isinstance(elt, ast.Subscript):
                    continue
                base = elt.value
                key = None
                if isinstance(base, ast.Subscript) and U(base.value) == "D" and isinstance(base.slice, ast.Constant):
                    key = base.slice.value
                elif isinstance(base, ast.Name) and base.id in aliases:
                    key = aliases[base.id]
                if key is None or key not in values_:
                    continue
                saved = values_[key]
                stacked = (isinstance(saved, ast.Call) and U(saved.func) == "array") or \
                    U(saved) == f"self.{st_.targets[0].attr}"
                if not stacked:
                    continue
                n_rt += 1
                idx = elt.slice.elts if isinstance(elt.slice, ast.Tuple) else [elt.slice]
                tvar = U(g.target)
                first_ok = U(idx[0]) == tvar and all(
                    isinstance(x, ast.Slice) and x.lower is None and x.upper is None and x.step is None for x in idx[1:])
                rng_ok = U(g.iter) in (f"range({U(base)}.shape[0])", f"range(len({U(base)}))")
                if not (first_ok and rng_ok):
                    bad.append(f"{var}.{st_.targets[0].attr} <- `{U(lcomp)}` but save stacked the list along axis 0 "
                               f"(`{U(saved)}`): element i must be row i, i in range(shape[0])")
            if n_rt:
                obs.append(struct_ob("stack-roundtrip", qual(lc, lfn), not bad, "; ".join(bad), rel, lfn.lineno,
                                     slots={"lists_checked": n_rt}))

        # state-persisted: attributes mutated by stepping are saved and restored
        step_entry = "take_step" if prog.find_method(ci, "take_step")[1] is not None else "advance"
        W = ts.writes(ci, step_entry)
        always, sometimes, values = keys_written(prog, ci, sfn)
        saved_attrs = set()
        for k, v in values.items():
            for n in ast.walk(v):
                if isinstance(n, ast.Attribute) and isinstance(n.value, ast.Name) and n.value.id == "self":
                    saved_attrs.add(n.attr)
            if k == "chain_length" and isinstance(v, ast.Call) and U(v.func) == "len" and len(v.args) == 1 and U(v.args[0]).startswith("self."):
                saved_attrs.add("chain_length")
        # the parameter objects and the epsilon selector are persisted through their own pairs
        text = U(sfn)
        if "get_items(param_id" in text:
            saved_attrs.add("params")
        if "self.ES.get_items()" in text:
            saved_attrs.add("ES")
        restored = definite | guarded_l | {a for a in A_load.assigned if a in A_load.used_params or True}
        restored_by_load = definite | guarded_l
        if "load_items" in U(lfn):
            restored_by_load = restored_by_load | {"ES"}
        # restored = assigned inside load (from the file), not merely defaulted by the constructor
        derived = set()      # recomputed by load from restored attributes of the same object
        for st_ in ast.walk(lfn):
            if isinstance(st_, ast.Assign) and isinstance(st_.targets[0], ast.Attribute) \
                    and isinstance(st_.targets[0].value, ast.Name) and st_.targets[0].value.id == var:
                if any(isinstance(n, ast.Attribute) and isinstance(n.value, ast.Name) and n.value.id == var
                       and n.attr in restored_by_load for n in ast.walk(st_.value)):
                    derived.add(st_.targets[0].attr)
        lost = sorted(a for a in W if a not in restored_by_load or (a not in saved_attrs and a not in derived))
        obs.append(struct_ob("state-persisted", f"{ci.module.name}.{cname}.save/load", not lost,
                             f"attributes mutated by {step_entry} but not persisted or not restored: {lost}", rel, sfn.lineno,
                             detail=",".join(lost), slots={"mutated": sorted(W), "saved": sorted(saved_attrs)}))

        # saved => restored, per sampler class
        dn_ = None
        for n_ in ast.walk(lfn):
            if isinstance(n_, ast.Subscript) and isinstance(n_.slice, ast.Constant) and isinstance(n_.slice.value, str) and isinstance(n_.value, ast.Name):
                dn_ = n_.value.id
                break
        read_k = {n_.slice.value for n_ in ast.walk(lfn) if isinstance(n_, ast.Subscript) and isinstance(n_.value, ast.Name)
                  and n_.value.id == dn_ and isinstance(n_.slice, ast.Constant)}
        read_k |= _keys_read_by_callees(prog, ci.module, lfn, dn_)
        delegated = set()
        if any(isinstance(n_, ast.Call) and isinstance(n_.func, ast.Attribute) and n_.func.attr == "load_items" for n_ in ast.walk(lfn)):
            delegated = set(es_read)
        unread_k = sorted(k for k in values if k not in read_k and k not in delegated)
        obs.append(struct_ob("saved-key-restored", f"{ci.module.name}.{cname}.load", not unread_k,
                             f"{cname}.save writes the keys {unread_k}, which load never reads: the reloaded sampler keeps the constructor's "
                             f"default where the saved one had its own value", rel, lfn.lineno, slots={"written": len(values), "read": len(read_k)}))
        if own_pair:
            obs.append(_restore_targets(qual(lc, lfn), lfn, var, rel))
            obs.append(_restored_containers(prog, ci, qual(lc, lfn), lfn, var, {dn_} if dn_ else set(), rel))
            obs.append(_save_writes(qual(sc, sfn), sfn, rel))
            obs.append(_restored_types(prog, ci, qual(lc, lfn), lfn, var, rel))
        obs.append(_state_unshared(prog, ci, qual(lc, lfn), lfn, var, rel))
        obs.append(_derived_consistent(prog, ci, cname, lfn, lc, call, var, rel))
        obs.extend(_ctor_arg_roundtrip(prog, ci, cname, lfn, call, values, rel))
        obs.extend(_rebuilt_object_roundtrip(prog, ci, cname, lfn, var, values, rel))
        obs.append(_load_forwards(prog, ci, cname, lfn, rel))

    meta = {
        "explanation": "Attribute typestate: the constructor chain of each sampler is interpreted abstractly over "
                       "{None, not-None, unknown} with the literal arguments load passes, giving the attributes definitely "
                       "assigned; the attributes each public entry reads (through resolved self-calls, bound-method slots and "
                       "hasattr guards) must be in that set or restored by load; save must read only attributes a fresh object "
                       "defines; keys read by load must be written by save (including f-string parameter keys and "
                       "EpsilonSelector.__dict__); values read from the file must be consumed by the constructor path taken; "
                       "attributes mutated by stepping must be saved and restored.",
        "assumptions": ["numpy.savez / load round-trip values; rng state equality is supplied by the property"],
        "info": info,
    }
    return obs, FLOORS, meta
