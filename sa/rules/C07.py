"""C07 - Hamiltonian trajectories: reversible, volume-preserving, second order (tier S + F).

Decides: both leapfrogs are symmetric compositions of shear maps with the kick-drift-kick
coefficient pattern; the kinetic energy matches the law the momenta are drawn from for each
mass class; wall reflection and momentum flip are paired and commute with the mass; the
finite-difference fallback has a non-vanishing denominator and is the gradient of the very
potential the acceptance test uses.   Does not decide: the size of the energy error.
"""
from __future__ import annotations
import ast
import copy
from fractions import Fraction
from ..model import qual, get_kw
from ..flow import Enumerator, RETURN, fmt
from ..symx import Expander, TupleV
from ..anf import R, Unsupported
from .. import anf
from .common import as_augassign, dtype_hazard_obligations, struct_ob, formula_ob, guard, last_return, U
from . import mcmc
from ..report import AnalysisError
from ..term import Resolver, pmatch
from .hmcmass import momentum_obligations

HMC = "inference/mcmc/hmc/__init__.py"
MASS = "inference/mcmc/hmc/mass.py"
FLOORS = {"fd-probe-inside-bounds": 1, "float-arithmetic": 2, "splitting-structure": 2, "shear": 2, "mass-law": 3, "momentum-law": 3, "hamiltonian-consistent": 2,
          "fd-denominator": 1, "reflect-commutes-with-mass": 3, "force-is-potential-gradient": 2, "trajectory-inputs-current": 3}


def hmc_expander(prog, ci):
    ex = Expander(prog, ci.module, ci)
    ex.opaque_self_attrs = {"inv_temp", "ES", "mass", "bounds", "posterior", "grad", "n_parameters", "rng"}
    ex.array_pred = lambda a: True
    return ex


def _slot_follows_helper(prog):
    """A bound method of a helper object kept in a slot (`self.kinetic_energy = self.mass.kinetic_energy`) belongs to THAT helper:
    every method that replaces the helper (`self.mass = ...`, estimate_mass) re-binds the slot afterwards, or the chain keeps
    evaluating the old helper - the kinetic energy of the accept test is then not the one the momenta are drawn under.  Read on
    the class as written (receiver may be `self` or the object `load` builds)."""
    raw = prog.as_written()
    ci = raw.cls("HamiltonianChain")
    methods = {}
    for c in reversed(raw.mro(ci)):
        methods.update(c.methods)
    ex = ast.parse("class C:\n def __init__(self):\n  self.h = H()\n  self.f = self.h.m\n def use(self):\n  return self.f(1)\n"
                   " def swap(self):\n  self.h = H()\n").body[0]
    if not _stale_slots({n.name: n for n in ex.body})[0]:
        raise AnalysisError("slot-follows-helper lost its positive example")
    bad, slots = _stale_slots(methods)
    return struct_ob("slot-follows-helper", qual(ci, ci.methods.get("__init__")) + "{as written}", not bad, "; ".join(bad[:2]),
                     ci.module.relpath, ci.node.lineno, slots={"slots": sorted(slots)}, tier="E", nontrivial=True)


def _stale_slots(methods):
    called = {n.func.attr for fn in methods.values() for n in ast.walk(fn)
              if isinstance(n, ast.Call) and isinstance(n.func, ast.Attribute) and isinstance(n.func.value, ast.Name)}
    slots = {}                                   # slot attribute -> helper attribute
    for fn in methods.values():
        for st in ast.walk(fn):
            if isinstance(st, ast.Assign) and len(st.targets) == 1 and isinstance(st.targets[0], ast.Attribute) and isinstance(st.targets[0].value, ast.Name):
                v = st.value
                if isinstance(v, ast.Attribute) and isinstance(v.value, ast.Attribute) and isinstance(v.value.value, ast.Name) \
                        and v.value.value.id == st.targets[0].value.id and st.targets[0].attr in called:
                    slots[st.targets[0].attr] = v.value.attr
    bad = []
    for mname, fn in methods.items():
        for st in ast.walk(fn):
            if not (isinstance(st, ast.Assign) and any(isinstance(t, ast.Attribute) and isinstance(t.value, ast.Name) for t in st.targets)):
                continue
            for t in st.targets:
                if not (isinstance(t, ast.Attribute) and isinstance(t.value, ast.Name)):
                    continue
                for slot, helper in slots.items():
                    if t.attr != helper:
                        continue
                    rebound = any(isinstance(s2, ast.Assign) and s2.lineno > st.lineno and any(
                        isinstance(t2, ast.Attribute) and isinstance(t2.value, ast.Name) and t2.value.id == t.value.id and t2.attr == slot
                        for t2 in s2.targets) for s2 in ast.walk(fn))
                    if not rebound:
                        bad.append(f"{mname} (line {st.lineno}) replaces {t.value.id}.{helper} but leaves {t.value.id}.{slot}, a bound method of the old "
                                   f"{helper} object, in place")
    return bad, slots


def run(prog, tier):
    early = [_slot_follows_helper(prog)]
    try:
        obs, floors, meta = _run_main(prog, tier)
    except AnalysisError:
        if any(not o.ok for o in early):
            return early, {}, {"explanation": "a method slot keeps a replaced helper object; remaining rules not evaluated"}
        raise
    return early + obs, floors, meta


def _run_main(prog, tier):
    # the estimated gradient can only approximate the true one where the log-density is defined: every probe of the finite
    # difference stays inside the bounds - the clause C07 shares with C04, decided there
    from .common import borrow
    shared = [o for o in borrow(prog, tier, "C04", {"hmc-posterior-args"}, "fd-probe-inside-bounds",
                                "a finite-difference probe outside the box evaluates the log-density where it may be undefined (-inf): "
                                "the estimate is then not an approximation of the gradient") if "finite_diff" in o.construct]
    # a trajectory that meets a wall is reversible only if the momentum component of every coordinate folded an odd number of times
    # is reversed (and only those): the reflection clause C07 shares with C04, decided there
    shared += borrow(prog, tier, "C04", {"hmc-reflect-order"}, "wall-reflection-reverses-momentum",
                     "the bounded leapfrog must multiply the momentum by the +/-1 factors of the position fold, after the fold: otherwise "
                     "running the trajectory backwards from its end point does not retrace it")
    # the energy whose change the accept test looks at is the one the trajectory conserves: potential plus the kinetic energy of the
    # chain's own mass (kinetic_energy, decided below) - the clause C07 shares with C01, decided there
    shared += [o for o in borrow(prog, tier, "C01", {"accept-form"}, "accept-test-uses-the-hamiltonian",
                                 "the acceptance ratio must be exp(-(H_end - H_start)) with the kinetic term of the chain's own mass matrix")
               if "HamiltonianChain" in o.construct]
    anf.reset()
    obs, info = [], []
    obs.extend(shared)
    # a mass object is consistent as built (its inverse mass, the scale its momenta are drawn with, its Cholesky factor belong
    # together): outside the mass classes nothing stores into one - a new mass means a new object
    mass_names = {k_.name for k_ in prog.subclasses("ParticleMass")} | {"ParticleMass"}
    pokes = []
    for ci_ in prog.classes.values():
        if ci_.name in mass_names or not ci_.module.relpath.startswith("inference/mcmc/"):
            continue
        for mname_, fn_ in ci_.methods.items():
            for st_ in ast.walk(fn_):
                tg_ = st_.targets if isinstance(st_, ast.Assign) else [st_.target] if isinstance(st_, (ast.AugAssign, ast.AnnAssign)) else []
                for t_ in tg_:
                    for el_ in (t_.elts if isinstance(t_, ast.Tuple) else [t_]):
                        b_ = el_
                        while isinstance(b_, ast.Subscript):
                            b_ = b_.value
                        if isinstance(b_, ast.Attribute) and isinstance(b_.value, ast.Attribute) and b_.value.attr == "mass":
                            pokes.append(f"{ci_.name}.{mname_} line {st_.lineno}: `{U(st_)[:70]}`")
    obs.append(struct_ob("mass-law", f"{prog.cls('HamiltonianChain').module.name}[mass-object-frozen]", not pokes,
                         "an attribute of a mass object is stored from outside the mass classes: " + "; ".join(pokes[:2])
                         + " - the other attributes derived from it at construction (momentum scale, factor) keep their old values, so momenta "
                         "are no longer drawn under the kinetic energy the accept test uses", HMC, prog.cls("HamiltonianChain").node.lineno, tier="F"))
    unroll = 3 if tier == "thorough" else 2
    ci = prog.cls("HamiltonianChain")

    # ---------------------------------------------------------------- one trajectory, one generation of the sampler's state
    from .common import current_state_obligations
    obs.extend(current_state_obligations(prog, "trajectory-inputs-current", [ci],
                                         "the trajectory mixes two generations of the step size / mass / position - it is no longer the "
                                         "reversible leapfrog map of one Hamiltonian"))

    # ---------------------------------------------------------------- splitting structure + shear
    for mname in ("standard_leapfrog", "bounded_leapfrog"):
        c, fn = prog.method("HamiltonianChain", mname)
        o1, o2 = _splitting(prog, ci, c, fn, unroll)
        obs.extend([o1, o2])
    # both occupants of run_leapfrog are checked
    targets, ext = prog.slot_targets(ci, "run_leapfrog")
    names = sorted(m.name for _, m in targets)
    if names != ["bounded_leapfrog", "standard_leapfrog"] or ext:
        obs.append(struct_ob("splitting-structure", f"{ci.module.name}.HamiltonianChain.run_leapfrog", False,
                             f"the run_leapfrog slot may hold {names} (external: {ext}); every occupant must be a checked leapfrog",
                             HMC, ci.node.lineno))

    # ---------------------------------------------------------------- mass classes
    obs.extend(_mass(prog))

    # ---------------------------------------------------------------- hamiltonian / kinetic energy
    c, kfn = prog.method("HamiltonianChain", "kinetic_energy")
    ex = hmc_expander(prog, ci)
    r = R.sym("r")
    K = guard(lambda: ex.run(kfn.body, {kfn.args.args[1].arg: r}))
    wantK = Fraction(1, 2) * anf.sum_(r * anf.fn_("self.mass.get_velocity", r), lambda a: True, R.sym("N"), "@")
    obs.append(formula_ob("hamiltonian-consistent", qual(c, kfn), K, wantK, HMC, kfn.lineno,
                          what="kinetic energy = 1/2 r . velocity(r)"))
    c, hfn = prog.method("HamiltonianChain", "hamiltonian")
    ex = hmc_expander(prog, ci)
    t = R.sym("t")
    H = guard(lambda: ex.run(hfn.body, {hfn.args.args[1].arg: t, hfn.args.args[2].arg: r}))
    wantH = K - anf.fn_("self.posterior", t) * R.sym("self.inv_temp")
    obs.append(formula_ob("hamiltonian-consistent", qual(c, hfn), H, wantH, HMC, hfn.lineno,
                          what="hamiltonian(t, r) = kinetic_energy(r) - posterior(t) * inv_temp"))

    # ---------------------------------------------------------------- finite difference fallback
    c, fd = prog.method("HamiltonianChain", "finite_diff")
    obs.append(_fd_denominator(c, fd))
    obs.extend(_force(prog, ci, c, fd))

    # ---------------------------------------------------------------- reflection commutes with the mass
    obs.extend(_reflect_mass(prog, ci))

    obs.extend(dtype_hazard_obligations(prog, "float-arithmetic", ['inference/mcmc/hmc/__init__.py', 'inference/mcmc/hmc/mass.py']))
    from .common import call_order_obligations
    obs.extend(call_order_obligations(prog, "arguments-in-order", ['inference/mcmc/hmc/__init__.py', 'inference/mcmc/hmc/mass.py']))

    meta = {
        "explanation": "Each leapfrog is abstractly interpreted (loops unrolled) into a word over Kick(c)/Drift(c)/Reflect with "
                       "coefficients in normal form: every update must be a shear (kick independent of r, drift independent of t: "
                       "unit Jacobian), the word must be a palindrome (time-reversible, hence even order) with kicks "
                       "1/2 eps beta, eps beta, ..., 1/2 eps beta and drifts eps; kinetic energy, Hamiltonian, momentum law "
                       "(scale^2 * inv_mass = 1, or L = (chol(inv_mass)^-1)^T) are checked in normal form / structurally; the "
                       "finite-difference denominator is a positive factor in every configuration and the estimate carries no "
                       "temperature factor (the leapfrog supplies exactly one); velocity must commute with the wall's sign flip.",
        "assumptions": ["user-supplied grad is the gradient of the user's log-posterior (property hypothesis)",
                        "numpy.linalg.cholesky / scipy solve_triangular compute the named factorisations"],
        "info": info,
    }
    return obs, FLOORS, meta


def _splitting(prog, ci, c, fn, unroll):
    t, r = fn.args.args[1].arg, fn.args.args[2].arg
    ex = hmc_expander(prog, ci)
    env = {t: R.sym("t"), r: R.sym("r"), fn.args.args[3].arg: R.sym("n_steps")}
    # leading definitions (r_step)
    lead_ids, coeff_names = set(), set()
    for st in fn.body:
        if isinstance(st, ast.Assign):
            guard(lambda: ex.exec_stmt(st, env))
            lead_ids.add(id(st))
            coeff_names |= {x.id for t_ in st.targets for x in ast.walk(t_) if isinstance(x, ast.Name)}
        else:
            break
    # locals that hold a gradient evaluation (`force = self.grad(t)`): bound in the environment for the coefficient algebra, and
    # tracked as events - a kick must use a gradient evaluated AFTER the latest drift
    gnames = set()
    for st in ast.walk(fn):
        if isinstance(st, ast.Assign) and len(st.targets) == 1 and isinstance(st.targets[0], ast.Name) \
                and any(isinstance(x, ast.Call) and U(x.func) == "self.grad" for x in ast.walk(st.value)):
            gnames.add(st.targets[0].id)
            if st.targets[0].id not in env:
                guard(lambda: ex.exec_stmt(st, env))
    # a velocity held in a local for the very next statement (`velocity = self.mass.get_velocity(r); t += eps * velocity`): nothing
    # lies between the evaluation and its use, so the local is written back into the drift
    vel_subst, vel_skip = {}, set()
    for blk_owner in ast.walk(fn):
        for fld in ("body", "orelse"):
            blk = getattr(blk_owner, fld, None)
            if not (isinstance(blk, list) and blk and isinstance(blk[0], ast.stmt)):
                continue
            for i_ in range(len(blk) - 1):
                a_, b_ = blk[i_], blk[i_ + 1]
                if isinstance(a_, ast.Assign) and len(a_.targets) == 1 and isinstance(a_.targets[0], ast.Name) \
                        and any(isinstance(x, ast.Call) and U(x.func) == "self.mass.get_velocity" for x in ast.walk(a_.value)) \
                        and isinstance(b_, (ast.AugAssign, ast.Assign)) \
                        and any(isinstance(x, ast.Name) and x.id == a_.targets[0].id and isinstance(x.ctx, ast.Load) for x in ast.walk(b_)):
                    vel_subst[id(b_)] = (a_.targets[0].id, a_.value, b_)
                    vel_skip.add(id(a_))
    # only if EVERY read of such a local is in the statement right after its definition (otherwise a later read could see a stale value)
    for nm_ in {v_[0] for v_ in vel_subst.values()}:
        n_all = sum(1 for x in ast.walk(fn) if isinstance(x, ast.Name) and x.id == nm_ and isinstance(x.ctx, ast.Load))
        n_adj = sum(1 for v_ in vel_subst.values() if v_[0] == nm_ for x in ast.walk(v_[2]) if isinstance(x, ast.Name) and x.id == nm_ and isinstance(x.ctx, ast.Load))
        if n_all != n_adj:
            for k_ in [k_ for k_, v_ in vel_subst.items() if v_[0] == nm_]:
                del vel_subst[k_]
            vel_skip.clear()
    shear_problems = []

    def coeff(expr, fname, must_not):
        v = ex.eval(expr, dict(env))
        atoms = [a for a in v.all_atoms() if a[0] == "fn" and a[1] == fname]
        if len(atoms) != 1:
            raise Unsupported(f"update `{U(expr)}` is not a multiple of one {fname}(.) value")
        cf = v.div(R.atom(atoms[0]))
        if any(a == ("sym", "t") or a == ("sym", "r") for a in cf.all_atoms()):
            raise Unsupported(f"coefficient of {fname} depends on the state: {cf}")
        arg = anf.REG.get(atoms[0][2])[0]
        dep = {a[1] for a in arg.all_atoms() if a[0] == "sym"}
        if must_not in dep:
            shear_problems.append(f"`{U(expr)}`: the increment depends on the variable it updates (not a shear)")
        return cf

    def classify(node):
        ev = []
        if id(node) in vel_skip or id(node) in lead_ids:
            return ev
        # a step coefficient (r_step ..) re-bound after the leading definitions - inside the loop, between the kicks - changes the map
        # from one sub-step to the next: the splitting read from the leading definitions no longer describes the code
        if isinstance(node, (ast.Assign, ast.AugAssign)):
            tn_ = [x.id for t_ in (node.targets if isinstance(node, ast.Assign) else [node.target]) for x in ast.walk(t_)
                   if isinstance(x, ast.Name) and isinstance(x.ctx, ast.Store)]
            if any(n_ in coeff_names - {t, r} for n_ in tn_):
                ev.append(("X", node.lineno, U(node) + "  [step coefficient re-bound after the leading definitions]"))
                return ev
        if id(node) in vel_subst:
            vn_, vv_, _b = vel_subst[id(node)]

            class _Sub(ast.NodeTransformer):
                def visit_Name(self, x):
                    return copy.deepcopy(vv_) if x.id == vn_ and isinstance(x.ctx, ast.Load) else x
            node = ast.fix_missing_locations(_Sub().visit(copy.deepcopy(node)))
        node = as_augassign(node)
        try:
            if isinstance(node, ast.Assign) and len(node.targets) == 1 and isinstance(node.targets[0], ast.Name) and node.targets[0].id in gnames:
                ev.append(("G", node.lineno, node.targets[0].id))
                return ev
            if isinstance(node, ast.AugAssign) and isinstance(node.target, ast.Name):
                if node.target.id == r and isinstance(node.op, ast.Add):
                    used = sorted({x.id for x in ast.walk(node.value) if isinstance(x, ast.Name) and x.id in gnames})
                    if used and not any(isinstance(x, ast.Call) and U(x.func) == "self.grad" for x in ast.walk(node.value)):
                        ev.append(("U", node.lineno, used[0]))
                    ev.append(("K", node.lineno, str(coeff(node.value, "self.grad", "r"))))
                elif node.target.id == t and isinstance(node.op, ast.Add):
                    ev.append(("D", node.lineno, str(coeff(node.value, "self.mass.get_velocity", "t"))))
                elif node.target.id == r and isinstance(node.op, ast.Mult):
                    ev.append(("F", node.lineno, U(node.value)))
                else:
                    ev.append(("X", node.lineno, U(node)))
            elif isinstance(node, ast.Assign) and isinstance(node.value, ast.Call) \
                    and U(node.value.func) == "self.bounds.reflect_momenta":
                ev.append(("R", node.lineno, ""))
            elif isinstance(node, ast.Assign) and any(isinstance(x, ast.Name) and x.id in (t, r) for tg in node.targets for x in ast.walk(tg)):
                ev.append(("X", node.lineno, U(node)))
            elif isinstance(node, ast.AugAssign) and any(isinstance(x, ast.Name) and x.id in (t, r) for x in ast.walk(node.target)):
                ev.append(("X", node.lineno, U(node)))           # `r[:] *= c`: a write through a view of the state
            elif isinstance(node, ast.Expr) and isinstance(node.value, ast.Call):
                # a call made for its effect on the state: out=<state>, an in-place method of the state, a function that writes its
                # first argument
                cl = node.value
                outs = [x.id for k_ in cl.keywords if k_.arg == "out" for x in ast.walk(k_.value) if isinstance(x, ast.Name)]
                recv = cl.func.value if isinstance(cl.func, ast.Attribute) else None
                while isinstance(recv, (ast.Subscript, ast.Attribute)):
                    recv = recv.value
                inplace = isinstance(cl.func, ast.Attribute) and cl.func.attr in ("clip", "fill", "sort", "resize", "put", "itemset", "round", "partition") \
                    and isinstance(recv, ast.Name) and recv.id in (t, r) and (cl.func.attr not in ("clip", "round") or outs)
                first = U(cl.func).split(".")[-1] in ("copyto", "put", "place", "putmask", "fill_diagonal", "shuffle") and cl.args \
                    and any(isinstance(x, ast.Name) and x.id in (t, r) for x in ast.walk(cl.args[0]))
                if any(o_ in (t, r) for o_ in outs) or inplace or first:
                    ev.append(("X", node.lineno, U(node)))
        except Unsupported as e:
            ev.append(("X", node.lineno, str(e)))
        return ev
    en = Enumerator(classify, None, None, unroll=unroll)
    paths = en.function(fn)
    eps, beta = R.sym("self.ES.epsilon"), R.sym("self.inv_temp")
    half, full, drift = str(Fraction(1, 2) * eps * beta), str(eps * beta), str(eps)
    problems = []
    words = []
    for ev, s in paths:
        if s != RETURN:
            continue
        # freshness of held gradients along the path
        fresh = {}
        for e in ev:
            if e[0] == "G":
                fresh[e[2]] = True
            elif e[0] == "D":
                fresh = {k_: False for k_ in fresh}
            elif e[0] == "U" and not fresh.get(e[2], False):
                problems.append(f"the kick at line {e[1]} uses `{e[2]}`, a gradient evaluated before the latest position update: the momentum is "
                                f"updated with the force of another point (the map is no longer the leapfrog of one Hamiltonian)")
                break
        seq = [e for e in ev if e[0] in ("K", "D", "R", "F", "X")]
        # fold  D R F  into the composite bounded drift  B
        word = []
        k = 0
        while k < len(seq):
            e = seq[k]
            if e[0] == "D" and k + 2 < len(seq) + 0 and [x[0] for x in seq[k + 1:k + 3]] == ["R", "F"]:
                word.append(("B", e[2]))
                k += 3
            else:
                word.append((e[0], e[2]))
                k += 1
        words.append(word)
        if any(w[0] == "X" for w in word):
            problems.append(f"unrecognised state update: {[w for w in word if w[0] == 'X'][0][1]}")
            continue
        # merge adjacent kicks
        kinds = [w[0] for w in word]
        if word != word[::-1]:
            problems.append(f"the update sequence {''.join(kinds)} with coefficients {[w[1] for w in word]} is not symmetric "
                            f"under reversal (not time-reversible)")
            continue
        if len(word) < 3 or kinds[0] != "K" or kinds[-1] != "K" or any(
                a == b for a, b in zip(kinds, kinds[1:])):
            problems.append(f"the update sequence {''.join(kinds)} is not an alternating kick-drift-...-kick scheme")
            continue
        kicks = [w[1] for w in word if w[0] == "K"]
        drifts = [w[1] for w in word if w[0] in ("D", "B")]
        if kicks[0] != half or kicks[-1] != half or any(x != full for x in kicks[1:-1]):
            problems.append(f"kick coefficients {kicks} are not 1/2 eps beta, eps beta, ..., 1/2 eps beta")
        if any(d != drift for d in drifts):
            problems.append(f"drift coefficients {drifts} are not all eps")
        if fn.name == "bounded_leapfrog" and any(w[0] == "D" for w in word):
            problems.append("a drift of the bounded scheme is not followed by reflect + momentum flip")
    # what is handed back is the integrated state, position first: (t, r)
    for rt in [n for n in ast.walk(fn) if isinstance(n, ast.Return)]:
        if not (isinstance(rt.value, ast.Tuple) and [U(e) for e in rt.value.elts] == [t, r]):
            problems.append(f"line {rt.lineno} returns `{U(rt.value) if rt.value is not None else None}`, not the integrated state ({t}, {r}) "
                            f"(position, momentum)")
    o1 = struct_ob("splitting-structure", qual(c, fn), not problems and bool(words), "; ".join(problems[:2]), HMC, fn.lineno,
                   slots={"words": ["".join(x[0] for x in w) for w in words][:6]})
    o2 = struct_ob("shear", qual(c, fn), not shear_problems, "; ".join(sorted(set(shear_problems))[:2]), HMC, fn.lineno)
    return o1, o2


def _mass(prog):
    out = []
    out.extend(momentum_obligations(prog, "momentum-law", "mass-law"))
    return out


def _fd_denominator(c, fd):
    """Every definition of the step h is (+/-) c * F with c a non-zero literal and F positive in its context."""
    quot = [n for n in ast.walk(fd) if isinstance(n, ast.BinOp) and isinstance(n.op, ast.Div)
            and any(U(x.func) == "self.posterior" for x in ast.walk(n.left) if isinstance(x, ast.Call))]
    problems = []
    if len(quot) != 1:
        return struct_ob("fd-denominator", qual(c, fd), False, f"{len(quot)} difference quotients found", HMC, fd.lineno)
    den = quot[0].right
    if not isinstance(den, ast.Name):
        problems.append(f"denominator `{U(den)}` is not the step variable")
    else:
        h = den.id
        defs = [n for n in ast.walk(fd) if isinstance(n, ast.Assign) and U(n.targets[0]) == h]
        if not defs:
            problems.append(f"step `{h}` is never defined")
        for d in defs:
            ok, why = _positive_multiple(d.value, h, _nonzero_facts(fd, d))
            if not ok:
                problems.append(f"`{U(d)}`: {why}")
            # ... and a SMALL multiple of the coordinate's scale on every arm: a difference quotient over a step of order one is not a
            # derivative (`c * |x| if x != 0 else 1.0` parses as (c|x|) if .. else 1.0)
            if not _small_step(d.value, h):
                problems.append(f"`{U(d)}`: the step is not (a literal factor between 1e-9 and 1e-3) x (a scale) on every arm of its definition")
        # numerator's probe moved by the same h in the same coordinate
        probes = [n for n in ast.walk(fd) if isinstance(n, ast.AugAssign) and isinstance(n.op, ast.Add)
                  and isinstance(n.target, ast.Subscript) and U(n.value) == h]
        tp_ = fd.args.args[1].arg
        # `probe[i] = t[i] + h` on a copy of t is the same move
        probes += [n for n in ast.walk(fd) if isinstance(n, ast.Assign) and len(n.targets) == 1 and isinstance(n.targets[0], ast.Subscript)
                   and isinstance(n.value, ast.BinOp) and isinstance(n.value.op, ast.Add)
                   and {U(n.value.left), U(n.value.right)} == {h, f"{tp_}[{U(n.targets[0].slice)}]"}]
        if len(probes) != 1:
            problems.append(f"the probe is not moved by exactly the step `{h}` that divides the difference")
        else:
            # one coordinate moves per quotient: the probe is a FRESH copy of the point for every coordinate
            tg_ = probes[0].target if isinstance(probes[0], ast.AugAssign) else probes[0].targets[0]
            pn_ = tg_.value.id if isinstance(tg_.value, ast.Name) else None
            loops_q = [l for l in ast.walk(fd) if isinstance(l, ast.For) and any(x is quot[0] for x in ast.walk(l))]
            if pn_ is not None and loops_q:
                defs_p = [n for n in ast.walk(fd) if isinstance(n, ast.Assign) and len(n.targets) == 1 and U(n.targets[0]) == pn_]
                fresh = [d for d in defs_p if any(x is d for x in ast.walk(loops_q[-1]))
                         and U(d.value) in (f"{fd.args.args[1].arg}.copy()", f"copy({fd.args.args[1].arg})", f"array({fd.args.args[1].arg})",
                                            f"{fd.args.args[1].arg} + 0", f"array({fd.args.args[1].arg}, copy=True)")]
                if not fresh:
                    problems.append(f"the probe `{pn_}` is not re-copied from the point inside the coordinate loop: the displacements of earlier "
                                    f"coordinates stay in it, so later quotients are not partial derivatives at the point")
        # the difference is posterior(probe) - posterior(t), both un-tempered evaluations of the user's density
        num = quot[0].left
        ok_num = False
        if isinstance(num, ast.BinOp) and isinstance(num.op, ast.Sub):
            lhs, rhs = num.left, num.right
            base = rhs
            if isinstance(rhs, ast.Name):
                defs_b = [n for n in ast.walk(fd) if isinstance(n, ast.Assign) and U(n.targets[0]) == rhs.id]
                base = defs_b[0].value if len(defs_b) == 1 else None
            tparam = fd.args.args[1].arg
            ok_num = (isinstance(lhs, ast.Call) and U(lhs.func) == "self.posterior"
                      and base is not None and U(base) == f"self.posterior({tparam})")
            if not ok_num:
                problems.append(f"the difference `{U(num)}` (base value `{U(base) if base is not None else None}`) is not "
                                f"posterior(probe) - posterior({tparam}): a stored log-probability is tempered and belongs to another call")
        else:
            problems.append(f"numerator `{U(num)}` is not a difference of two posterior evaluations")
        # one quotient per coordinate: the loop holding it runs over every index of the point, from 0
        tparam = fd.args.args[1].arg
        loops = [l for l in ast.walk(fd) if isinstance(l, ast.For) and any(x is quot[0] for x in ast.walk(l))]
        if loops:
            it = loops[-1].iter
            full = isinstance(it, ast.Call) and U(it.func) == "range" and len(it.args) == 1 and not it.keywords \
                and U(it.args[0]) in ("self.n_parameters", f"{tparam}.size", f"len({tparam})", f"{tparam}.shape[0]")
            full = full or (isinstance(it, ast.Call) and U(it.func) == "enumerate" and len(it.args) == 1 and U(it.args[0]) == tparam)
            # the size of the gradient array itself, when that array has one cell per coordinate: G = zeros(<number of coordinates>)
            if not full and isinstance(it, ast.Call) and U(it.func) == "range" and len(it.args) == 1 and not it.keywords:
                m_ = pmatch(it.args[0], "_G.size") or pmatch(it.args[0], "len(_G)") or pmatch(it.args[0], "_G.shape[0]")
                if m_ is not None:
                    gdefs = [n_ for n_ in ast.walk(fd) if isinstance(n_, ast.Assign) and len(n_.targets) == 1 and U(n_.targets[0]) == m_["_G"]]
                    full = len(gdefs) == 1 and any(pmatch(gdefs[0].value, pt_) is not None for pt_ in (
                        "zeros(self.n_parameters)", f"zeros({tparam}.size)", f"zeros(len({tparam}))", f"zeros_like({tparam})", f"zeros({tparam}.shape)",
                        "zeros(self.n_parameters, **_)", f"zeros({tparam}.size, **_)", f"zeros_like({tparam}, **_)", "empty(self.n_parameters)"))
            if not full:
                problems.append(f"the coordinate loop runs over `{U(it)}`, not over every index of `{tparam}`: the coordinates left out keep a "
                                f"zero in the estimated gradient")
    return struct_ob("fd-denominator", qual(c, fd), not problems, "; ".join(problems), HMC, fd.lineno)


def _nonzero_facts(fn, node):
    """texts x for which `x != 0` is known where `node` executes: from the tests of the enclosing if statements / arms."""
    facts = set()

    def from_test(t, truth):
        while isinstance(t, ast.UnaryOp) and isinstance(t.op, ast.Not):
            t, truth = t.operand, not truth
        if isinstance(t, ast.Compare) and len(t.ops) == 1 and U(t.comparators[0]) in ("0.0", "0"):
            if (isinstance(t.ops[0], ast.NotEq) and truth) or (isinstance(t.ops[0], ast.Eq) and not truth):
                facts.add(U(t.left))
    for anc in ast.walk(fn):
        if isinstance(anc, ast.If):
            if any(x is node for b_ in anc.body for x in ast.walk(b_)):
                from_test(anc.test, True)
            elif any(x is node for b_ in anc.orelse for x in ast.walk(b_)):
                from_test(anc.test, False)
    return facts


def _positive(e, facts):
    """e > 0 for every admissible state: positive literals, products of positives, a box width (upper > lower is validated),
    |x| where x != 0 is known, and conditional expressions arm by arm."""
    if isinstance(e, ast.Constant) and isinstance(e.value, (int, float)) and not isinstance(e.value, bool):
        return e.value > 0
    if isinstance(e, ast.BinOp) and isinstance(e.op, ast.Mult):
        return _positive(e.left, facts) and _positive(e.right, facts)
    if U(e).startswith("self.bounds.width["):
        return True
    if isinstance(e, ast.Call) and U(e.func) in ("abs", "fabs", "absolute") and len(e.args) == 1:
        return U(e.args[0]) in facts
    if isinstance(e, ast.IfExp):
        t, truth = e.test, True
        while isinstance(t, ast.UnaryOp) and isinstance(t.op, ast.Not):
            t, truth = t.operand, not truth
        fb, fo = set(facts), set(facts)
        if isinstance(t, ast.Compare) and len(t.ops) == 1 and U(t.comparators[0]) in ("0.0", "0"):
            nz = (isinstance(t.ops[0], ast.NotEq) and truth) or (isinstance(t.ops[0], ast.Eq) and not truth)
            z = (isinstance(t.ops[0], ast.Eq) and truth) or (isinstance(t.ops[0], ast.NotEq) and not truth)
            if nz:
                fb.add(U(t.left))
            if z:
                fo.add(U(t.left))
        return _positive(e.body, fb) and _positive(e.orelse, fo)
    return False


def _small_step(expr, h):
    if isinstance(expr, ast.UnaryOp) and isinstance(expr.op, ast.USub):
        return U(expr.operand) == h or _small_step(expr.operand, h)
    if isinstance(expr, ast.IfExp):
        return _small_step(expr.body, h) and _small_step(expr.orelse, h)
    if isinstance(expr, ast.Constant) and isinstance(expr.value, (int, float)) and not isinstance(expr.value, bool):
        return 1e-9 <= abs(expr.value) <= 1e-3          # below ~1e-9 of the scale the probe no longer differs from the point in double precision
    if isinstance(expr, ast.BinOp) and isinstance(expr.op, ast.Mult):
        return _small_step(expr.left, h) or _small_step(expr.right, h)
    if isinstance(expr, ast.BinOp) and isinstance(expr.op, ast.Div):
        return _small_step(expr.left, h)
    if isinstance(expr, ast.Name) and expr.id == h:
        return True
    return False


def _positive_multiple(expr, h, facts=frozenset()):
    """expr == -h (the inward flip of a step already shown positive), or provably positive."""
    if isinstance(expr, ast.UnaryOp) and isinstance(expr.op, ast.USub) and U(expr.operand) == h:
        return True, ""
    if _positive(expr, set(facts)):
        return True, ""
    return False, "not provably non-zero (literal x positive factor; |x| only where x != 0 is known)"


def _force(prog, ci, c, fd):
    """The force used in a kick is the gradient of the potential of the accept test: exactly one inv_temp on the
    path posterior -> kick.  r_step supplies it (checked in splitting-structure), so neither occupant of the grad
    slot may add one."""
    out = []
    targets, ext = prog.slot_targets(ci, "grad")
    occupants = [m.name for _, m in targets]
    for _, m in targets:
        temps = [n for n in ast.walk(m) if isinstance(n, ast.Attribute) and n.attr in ("inv_temp", "temperature")]
        out.append(struct_ob("force-is-potential-gradient", qual(c, m), not temps,
                             f"the internal gradient estimate applies the temperature ({len(temps)} use(s) of inv_temp/temperature) "
                             f"although the leapfrog multiplies every force by inv_temp once more: the force is then not the gradient "
                             f"of the potential the acceptance test uses", HMC, m.lineno,
                             slots={"slot_occupants": occupants, "external_allowed": ext}))
    # the slot is bound as `self.finite_diff if grad is None else grad`
    sites = prog.self_assignments(ci, "grad")
    ok = len(sites) == 1 and any(pmatch(sites[0][3], pt) is not None for pt in
                                 ("self.finite_diff if grad is None else grad", "grad if grad is not None else self.finite_diff"))
    if not ok and len(sites) == 2:
        # the same choice as a statement:  if grad is None: self.grad = self.finite_diff  else: self.grad = grad
        init_ = sites[0][1]
        for iff in [n for n in ast.walk(init_) if isinstance(n, ast.If)]:
            def arm_value(block):
                v = [st_.value for st_ in block if isinstance(st_, ast.Assign) and U(st_.targets[0]) == "self.grad"]
                return U(v[0]) if len(v) == 1 and len(block) == 1 else None
            tb, to = arm_value(iff.body), arm_value(iff.orelse)
            tt = U(iff.test)
            if (tt == "grad is None" and (tb, to) == ("self.finite_diff", "grad")) or (tt == "grad is not None" and (tb, to) == ("grad", "self.finite_diff")):
                ok = True
    out.append(struct_ob("force-is-potential-gradient", f"{ci.module.name}.HamiltonianChain.__init__[grad-slot]", ok,
                         f"grad slot binding is `{U(sites[0][3]) if sites else None}`", HMC,
                         sites[0][2].lineno if sites else ci.node.lineno))
    return out


def _reflect_mass(prog, ci):
    """velocity(s o r) = s o velocity(r) for the diagonal +/-1 matrix s of the wall reflection."""
    out = []
    # the closed set of classes the `mass` slot may hold
    gpm = prog.function(MASS, "get_particle_mass")
    returned = sorted({U(n.value.func) for n in ast.walk(gpm) if isinstance(n, ast.Return)
                       and isinstance(n.value, ast.Call)})
    c, init = prog.method("HamiltonianChain", "__init__")
    # is the (bounds, matrix mass) configuration excluded by the constructor?
    excluded = any(isinstance(n, ast.If) and "MatrixMass" in U(n.test) and "bounds" in U(n.test)
                   and any(isinstance(b, ast.Raise) for b in n.body) for n in ast.walk(init))
    for cname in returned:
        mc = prog.cls(cname)
        cc, gv = prog.find_method(mc, "get_velocity")
        ret = last_return(gv)
        v = ret.value
        elementwise = isinstance(v, ast.BinOp) and isinstance(v.op, ast.Mult)
        ok = elementwise or excluded
        out.append(struct_ob("reflect-commutes-with-mass", f"{ci.module.name}.HamiltonianChain.bounded_leapfrog[{cname}]", ok,
                             f"with mass class {cname} the velocity is `{U(v)}`: a matrix product does not commute with the "
                             f"component-wise momentum flip of the wall reflection, so the bounded trajectory is not time-reversible "
                             f"once a wall is hit (and the constructor does not exclude bounds together with a full mass matrix)",
                             HMC, gv.lineno, detail=cname, slots={"mass_classes": returned, "excluded_by_ctor": excluded}))
    return out
