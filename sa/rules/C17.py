"""C17 - GP linear inversion returns the exact linear-Gaussian posterior (tier M).

Decides: posterior_cov = (I + K A^T S^-1 A)^-1 K; mean = cov A^T S^-1 (y - A m) + m; the
mean-only path is the same word; evidence = -1/2 r^T J^-1 r - 1/2 logdet J with
J = A K A^T + S, r = y - A m; gradient = 1/2 tr((aa^T - J^-1) A dK A^T), a^T A dm;
S = diag(y_err^2), S^-1 = diag(y_err^-2).   Does not decide: symmetry / PSD numerically.
On paper: (K^-1 + A^T S^-1 A)^-1 = (I + K A^T S^-1 A)^-1 K, the linear-Gaussian posterior covariance.
"""
from __future__ import annotations
import ast
from fractions import Fraction
from ..model import qual
from ..mexp import MExpander
from ..symx import Expander, TupleV, ListV
from ..ncf import M
from .. import ncf, anf
from ..anf import R, Unsupported
from .common import memo_obligations, dtype_hazard_obligations, default_instance_obligations, struct_ob, guard, gradient_lists_in_order, U
from ..report import Ob, AnalysisError

REL = "inference/gp/inversion.py"
FLOORS = {"float-arithmetic": 1, "components-not-shared": 1, "posterior-form": 3, "evidence-form": 2, "evidence-gradient-form": 2, "noise-matrices": 1,
          "triangular-solves": 1, "slice-layout": 2, "scratch-owned": 5}

ATOMS = {"self.A": ("A", 2, False), "self.y": ("y", 1, False), "self.inv_sigma": ("Si", 2, True),
         "self.sigma": ("S", 2, True)}


def mob(rule, construct, got, want, line, what):
    ok = isinstance(got, M) and isinstance(want, M) and got.eq(want)
    msg = "" if ok else f"{what}: code has  {got}  but the closed form is  {want}"
    return Ob(rule, construct, ok, msg=msg, file=REL, line=line, tier="M",
              slots={"what": what, "code_form": str(got)[:400], "reference_form": str(want)[:400]})


def make(prog, ci):
    ncf.SYMMETRIC.clear()
    ex = MExpander(prog, ci.module, ci)
    ex.atoms = dict(ATOMS)
    ex.ctor_methods = ("__init__",)

    def hook(e, node, env):
        f = U(node.func)
        if f == "self.cov.build_covariance":
            return M.atom("K", 2, True)
        if f == "self.mean.build_mean":
            return M.atom("m", 1)
        if f == "self.cov.covariance_and_gradients":
            return TupleV([M.atom("K", 2, True), ListV([M.atom("dK", 2, True)])])
        if f == "self.mean.mean_and_gradients":
            return TupleV([M.atom("m", 1), ListV([M.atom("dm", 1)])])
        return NotImplemented
    ex.call_atoms = hook
    return ex


def run(prog, tier):
    obs = []
    ci = prog.cls("GpLinearInverter")
    # the forward model, the data and their error model are read by every evaluation: none of them may be consumed as scratch
    from .common import scratch_owned_obligations
    so = scratch_owned_obligations(prog, "scratch-owned", [ci],
                                   "the forward model / data kept by the inverter is overwritten by one evaluation: every later "
                                   "posterior and evidence is computed from the damaged array (and so is the caller's own array)")
    from .gpm import routing_obligations
    so = so + routing_obligations(prog, "GpLinearInverter", "hyperparameter-routing", REL)
    # a memoised factorisation must be keyed on values the inverter owns (decided before the matrix algebra, which cannot read
    # a restructured solve)
    so = so + memo_obligations(prog, "cache-key", [ci])
    obs.extend(so)
    if any(not o.ok for o in so):
        return obs, {}, {"explanation": "kept arrays are consumed as scratch / hyper-parameters mis-routed; formula rules not evaluated"}
    A, y, Si, S = (M.atom(*ATOMS[k][:2]) for k in ("self.A", "self.y", "self.inv_sigma", "self.sigma"))
    ncf.SYMMETRIC.update({"Si", "S", "K", "dK"})
    K, m = M.atom("K", 2, True), M.atom("m", 1)
    I = M.eye()

    def reference():
        X = I + K.matmul(A.T()).matmul(Si).matmul(A)
        invX = M.atom(f"inv({X})", 2)
        cov = invX.matmul(K)
        mean = cov.matmul(A.T()).matmul(Si).matmul(y - A.matmul(m)) + m
        return cov, mean

    c0, mg0 = prog.method("GpLinearInverter", "marginal_likelihood_gradient")
    pr = gradient_lists_in_order(mg0, {"grad_K", "grad_mu", "grad_J", "grad_f"})
    obs.append(struct_ob("slice-layout", qual(c0, mg0) + "[order]", not pr, "; ".join(pr), REL, mg0.lineno))
    if pr:
        return obs, {}, {"explanation": "gradient list order violated; formula rules not evaluated"}

    # ---------------------------------------------------------------- posterior
    c, fn = prog.method("GpLinearInverter", "calculate_posterior")
    ex = make(prog, ci)
    res = guard(lambda: ex.run(fn.body, {fn.args.args[1].arg: M.atom("theta", 1)}))
    cov_ref, mean_ref = reference()
    if not (isinstance(res, TupleV) and len(res.items) == 2):
        raise AnalysisError("calculate_posterior does not return (mean, covariance)")
    obs.append(mob("posterior-form", qual(c, fn) + "[covariance]", res.items[1], cov_ref, fn.lineno,
                   "posterior covariance = inv(I + K A^T Si A) K"))
    obs.append(mob("posterior-form", qual(c, fn) + "[mean]", res.items[0], mean_ref, fn.lineno,
                   "posterior mean = cov A^T Si (y - A m) + m"))
    c, fn2 = prog.method("GpLinearInverter", "calculate_posterior_mean")
    ex = make(prog, ci)
    res2 = guard(lambda: ex.run(fn2.body, {fn2.args.args[1].arg: M.atom("theta", 1)}))
    cov_ref, mean_ref = reference()
    obs.append(mob("posterior-form", qual(c, fn2), res2, mean_ref, fn2.lineno,
                   "mean-only path = mean of the full path"))

    # ---------------------------------------------------------------- evidence
    problems = []
    c, ml = prog.method("GpLinearInverter", "marginal_likelihood")
    ex = make(prog, ci)
    val = guard(lambda: ex.run(ml.body, {ml.args.args[1].arg: M.atom("theta", 1)}))
    problems += ex.problems
    J = A.matmul(K).matmul(A.T()) + S
    r = y - A.matmul(m)
    Linv, LinvT = M.atom("Linv", 2), M.atom("LinvT", 2)
    hld = M.atom(f"hld({M.atom('L', 2)})", 0)
    ev_ref = r.matmul(LinvT.matmul(Linv).matmul(r)).scale(Fraction(-1, 2)) - hld
    okJ = "L" in ex.chol and ex.chol["L"].eq(J)
    o = mob("evidence-form", qual(c, ml), val, ev_ref, ml.lineno, "evidence = -1/2 r^T L^-T L^-1 r - sum log diag L")
    if o.ok and not okJ:
        o = struct_ob("evidence-form", qual(c, ml), False, f"the Cholesky factor is taken of {ex.chol.get('L')} instead of A K A^T + S", REL, ml.lineno)
    obs.append(o)

    c, mg = prog.method("GpLinearInverter", "marginal_likelihood_gradient")
    ex = make(prog, ci)
    env = {mg.args.args[1].arg: M.atom("theta", 1)}
    res = guard(lambda: ex.run(mg.body, env))
    problems += ex.problems
    okJ = "L" in ex.chol and ex.chol["L"].eq(J)
    val2 = res.items[0] if isinstance(res, TupleV) else None
    o = mob("evidence-form", qual(c, mg) + "[value]", val2, ev_ref, mg.lineno, "value of the value-and-gradient variant = evidence")
    if o.ok and not okJ:
        o = struct_ob("evidence-form", qual(c, mg) + "[value]", False, f"Cholesky factor of {ex.chol.get('L')} instead of A K A^T + S", REL, mg.lineno)
    obs.append(o)
    alpha = LinvT.matmul(Linv).matmul(r)
    dK, dm = M.atom("dK", 2, True), M.atom("dm", 1)
    gm = env.get("grad[self.mean_slice]")
    gc = env.get("grad[self.cov_slice]")
    if gm is None and gc is None and isinstance(res, TupleV) and len(res.items) == 2 and getattr(res.items[1], "concat", False) \
            and len(res.items[1].items) == 2:
        # the gradient assembled as concatenate([mean part, covariance part]): piece k fills the k-th slice, and the slices are
        # mean-first (slice-layout, below)
        gm, gc = res.items[1].items
    def per_parameter(v, which):
        """One value per hyper-parameter: a comprehension over the gradient list, or a stacked product."""
        if isinstance(v, ListV) and len(v.items) == 1:
            return v.items[0], None
        if isinstance(v, M) and v.rank == 0:
            return None, (f"a single number ({v}) is broadcast into grad[{which}]: every hyper-parameter of that group gets the "
                          f"same value instead of its own partial derivative")
        if isinstance(v, M) and v.rank == 1 and all(w and w[0] == ("STACK", False) for w in v.terms):
            return ncf.scalarise({w[1:]: c for w, c in v.terms.items()}), None
        raise AnalysisError(f"anchor vanished: gradient scatter into {which} in marginal_likelihood_gradient ({v!r})")
    gm, pm = per_parameter(gm, "self.mean_slice")
    gc, pc_ = per_parameter(gc, "self.cov_slice")
    for prob in (pm, pc_):
        if prob:
            obs.append(struct_ob("evidence-gradient-form", qual(c, mg) + "[scatter]", False, prob, REL, mg.lineno, tier="M"))
    gm = ListV([gm if gm is not None else M({}, 0)])
    gc = ListV([gc if gc is not None else M({}, 0)])
    want_m = alpha.matmul(A.matmul(dm))
    outer = M(ncf._mul(alpha.terms, ncf._row(alpha.terms)), 2)
    Q = outer - LinvT.matmul(Linv)
    want_c = ncf.trace(Q.matmul(A.matmul(dK).matmul(A.T()))).scale(Fraction(1, 2))
    obs.append(mob("evidence-gradient-form", qual(c, mg) + "[mean-part]", gm.items[0], want_m, mg.lineno,
                   "d evidence / d(mean hyper-parameter) = alpha^T A dm"))
    obs.append(mob("evidence-gradient-form", qual(c, mg) + "[covariance-part]", gc.items[0], want_c, mg.lineno,
                   "d evidence / d(kernel hyper-parameter) = 1/2 tr((alpha alpha^T - J^-1) A dK A^T)"))
    obs.append(struct_ob("triangular-solves", f"{ci.module.name}.GpLinearInverter", not problems, "; ".join(problems), REL, ml.lineno))

    # ---------------------------------------------------------------- noise matrices (engine C)
    anf.reset()
    init = ci.methods["__init__"]
    sx = Expander(prog, ci.module, ci)
    src = {U(s.targets[0]): s.value for s in ast.walk(init) if isinstance(s, ast.Assign)}
    ok, why = False, ""
    try:
        sg, isg = src["self.sigma"], src["self.inv_sigma"]
        # built in a local first and stored afterwards: the local's own definition
        sg = src.get(sg.id, sg) if isinstance(sg, ast.Name) else sg
        isg = src.get(isg.id, isg) if isinstance(isg, ast.Name) else isg
        if all(isinstance(v, ast.Call) and U(v.func) == "diag" and len(v.args) == 1 for v in (sg, isg)):
            a = sx.eval(sg.args[0], {"y_err": R.sym("y_err")})
            b = sx.eval(isg.args[0], {"y_err": R.sym("y_err")})
            ok = a.eq(R.sym("y_err") ** 2) and (a * b).eq(R.const(1))
            why = f"sigma = diag({a}), inv_sigma = diag({b})"
    except (KeyError, Unsupported) as e:
        why = str(e)
    # the forward model and the data the algebra treats as atoms ARE the caller's: self.A / self.y are bound to the arguments (converted
    # to arrays at most), not to a thresholded, whitened or rescaled copy
    for attr_, par_ in (("A", "model_matrix"), ("y", "y")):
        for st_ in ast.walk(init):
            if isinstance(st_, ast.Assign) and len(st_.targets) == 1 and U(st_.targets[0]) == f"self.{attr_}":
                e_ = st_.value
                while True:
                    if isinstance(e_, ast.Call) and isinstance(e_.func, ast.Attribute) and e_.func.attr in ("squeeze", "copy", "flatten", "ravel") and not e_.args:
                        e_ = e_.func.value
                    elif isinstance(e_, ast.Call) and U(e_.func) in ("array", "asarray", "atleast_1d", "atleast_2d", "asanyarray") and len(e_.args) == 1:
                        e_ = e_.args[0]
                    else:
                        break
                if not (isinstance(e_, ast.Name) and e_.id == par_):
                    ok = False
                    why += f"; line {st_.lineno}: `{U(st_)[:80]}` stores something else than the argument `{par_}`"
    # the kernel and the mean are told the parameter positions the caller gave: pass_spatial_data receives that argument itself
    for st_ in ast.walk(init):
        if isinstance(st_, ast.Call) and isinstance(st_.func, ast.Attribute) and st_.func.attr == "pass_spatial_data" and st_.args:
            a0_ = st_.args[0]
            if not (isinstance(a0_, ast.Name) and a0_.id in [a_.arg for a_ in init.args.args]) and not (
                    isinstance(a0_, ast.Attribute) and isinstance(a0_.value, ast.Name) and a0_.value.id == init.args.args[0].arg):
                ok = False
                why += f"; line {st_.lineno}: `{U(st_)[:80]}` hands the component something else than the positions the caller gave"
    # ... of the y_err the caller passed: the constructor re-binds its data arguments only to array conversions of themselves
    for var in ("y_err", "y", "y_cov", "model_matrix"):
        for st_ in ast.walk(init):
            tg = st_.targets[0] if isinstance(st_, ast.Assign) and len(st_.targets) == 1 else st_.target if isinstance(st_, ast.AugAssign) else None
            if tg is None or U(tg) != var:
                continue
            e = st_.value if isinstance(st_, ast.Assign) else None
            while e is not None:
                if isinstance(e, ast.Call) and isinstance(e.func, ast.Attribute) and e.func.attr in ("squeeze", "copy", "flatten", "ravel") and not e.args:
                    e = e.func.value
                elif isinstance(e, ast.Call) and U(e.func) in ("array", "asarray", "atleast_1d", "asanyarray") and len(e.args) == 1:
                    e = e.args[0]
                else:
                    break
            if not (isinstance(e, ast.Name) and e.id == var):
                ok = False
                why += f"; line {st_.lineno}: `{U(st_)[:90]}` alters the caller's `{var}` before it is used"
    obs.append(struct_ob("noise-matrices", qual(ci, init), ok,
                         "S must be diag(y_err^2) and Si its elementwise inverse on the diagonal: " + why, REL, init.lineno, tier="F"))
    # slices: mean first, then covariance; labels / bounds in the same order
    from .gpm import mean_first_layout
    ci_, init_, why_ = mean_first_layout(prog, "GpLinearInverter", "optimize_hyperparameters", "hp_bounds")
    obs.append(struct_ob("slice-layout", qual(ci, init), not why_,
                         "hyper-parameter slices, labels and bounds must all be mean-first then covariance: " + "; ".join(why_), REL, init.lineno))

    obs.extend(default_instance_obligations(prog, "components-not-shared", [('GpLinearInverter', '__init__')]))

    obs.extend(dtype_hazard_obligations(prog, "float-arithmetic", ['inference/gp/inversion.py']))
    from .common import call_order_obligations
    obs.extend(call_order_obligations(prog, "arguments-in-order", ['inference/gp/inversion.py']))
    from .common import identity_memo_obligations
    obs.extend(identity_memo_obligations(prog, "result-keyed-on-values", ['inference/gp/inversion.py']))


    meta = {
        "explanation": "Matrix normal form (non-commutative words with transposition, triangular-solve and solve atoms, trace and "
                       "scalar-word canonicalisation): the expanded covariance/mean/evidence/gradient expressions of the inverter "
                       "are compared with the closed forms; the mean-only path must be the same word as the full path; the "
                       "Cholesky factor must be of A K A^T + S and every triangular solve must use the matching triangle; the noise "
                       "matrices are checked in the scalar normal form.",
        "assumptions": ["numpy/scipy cholesky, solve, solve_triangular compute the named operations",
                        "K returned by covariance_and_gradients equals build_covariance (C10.value-sibling)"],
    }
    return obs, FLOORS, meta
