"""C05 - likelihood classes are the named normalised densities (tier F + S).

Decides: the return expression of each `_log_likelihood` equals the reference
log-density summed over the data; each `_log_likelihood_gradient` is the derivative
of that summand contracted with the Jacobian; cost / cost_gradient are the exact
negatives; the base-class wiring passes model(theta) / model_jacobian(theta).
Does not decide: overflow in the tails, correctness of a user Jacobian.
"""
from __future__ import annotations
import ast
from ..model import qual
from ..symx import Expander, ref_eval, TupleV
from ..anf import R
from .. import anf
from .common import overflow_obligations, dtype_hazard_obligations, refresh_obligation, formula_ob, struct_ob, guard, last_return, rel, U, purity_obligations
from ..report import AnalysisError

REL = "inference/likelihoods.py"

# class -> (uncertainty attribute, reference summand in y, F, s)
REFERENCE = {
    "GaussianLikelihood": ("sigma", "-0.5*((y-F)/s)**2 - log(s) - 0.5*log(2*pi)"),
    "CauchyLikelihood": ("gamma", "-log(1+((y-F)/s)**2) - log(pi*s)"),
    "LogisticLikelihood": ("sigma", "-((y-F)/(s*sqrt(3)/pi)) - 2*log(1+exp(-((y-F)/(s*sqrt(3)/pi)))) "
                                    "- log(s*sqrt(3)/pi)"),
}
FLOORS = {"overflow-safe": 1, "float-arithmetic": 1, "density-form": 3, "gradient-is-derivative": 3, "jacobian-contraction": 3,
          "negations": 6, "wiring": 6, "ctor-wiring": 3, "arguments-not-mutated": 15}

ARRAYS = {"y_data", "uncertainties", "predictions"}


def make_expander(prog, ci):
    ex = Expander(prog, ci.module, ci)
    ex.array_pred = lambda a: a[0] == "sym" and a[1] in ARRAYS
    ex.n_atom = R.sym("size(y_data)")
    ex.ctor_methods = ("__init__",)
    return ex


def run(prog, tier):
    anf.reset()
    obs = []
    mi = prog.module(REL)
    base = prog.cls("Likelihood")
    subclasses = prog.subclasses("Likelihood")
    info = []
    is_arr = lambda a: a[0] == "sym" and a[1] in ARRAYS
    n_atom = R.sym("size(y_data)")
    for ci in subclasses:
        if ci.name not in REFERENCE:
            info.append(f"C05 sweep: Likelihood subclass {ci.name} has no reference density in the rule table; not checked")
            continue
        unc, ref_text = REFERENCE[ci.name]
        env_ref = {"y": R.sym("y_data"), "F": R.sym("predictions"), "s": R.sym("uncertainties")}
        summand = guard(lambda: ref_eval(ref_text, env_ref))
        ref_total = anf.sum_(summand, is_arr, n_atom)

        # ---- ctor wiring: super().__init__(y_data, <unc param>, "<unc>", forward_model, jacobian)
        init = ci.methods.get("__init__")
        if init is None:
            raise AnalysisError(f"anchor vanished: {ci.name}.__init__")
        sup = [c for c in ast.walk(init) if isinstance(c, ast.Call)
               and U(c.func).startswith("super(") and U(c.func).endswith("__init__")]
        params = [a.arg for a in init.args.args[1:]]
        ok = False
        detail = ""
        # positional and keyword arguments of the super().__init__ call, in the order of the base signature
        bparams = [x.arg for x in base.methods["__init__"].args.args[1:]] if "__init__" in base.methods else []
        sargs = []
        if len(sup) == 1:
            sargs = list(sup[0].args)
            kws_ = {k.arg: k.value for k in sup[0].keywords if k.arg}
            while len(sargs) < len(bparams) and bparams[len(sargs)] in kws_:
                sargs.append(kws_[bparams[len(sargs)]])
        if len(sup) == 1 and len(sargs) >= 4 and len(params) >= 3:
            a = sargs
            ok = (isinstance(a[0], ast.Name) and a[0].id == params[0]
                  and isinstance(a[1], ast.Name) and a[1].id == params[1]
                  and isinstance(a[2], ast.Constant) and a[2].value == unc
                  and isinstance(a[3], ast.Name) and a[3].id == params[2])
            detail = U(sup[0])
        obs.append(struct_ob("ctor-wiring", qual(ci, init), ok,
                             f"super().__init__ must receive (data, uncertainty, '{unc}', forward_model): {detail}",
                             REL, init.lineno, slots={"call": detail}))

        # ---- density-form
        c, fn = prog.method(ci.name, "_log_likelihood")
        ex = make_expander(prog, ci)
        env = {"predictions": R.sym("predictions")}
        got = guard(lambda: ex.run(fn.body, env))
        obs.append(formula_ob("density-form", qual(c, fn), got, ref_total, REL, fn.lineno,
                              what=f"log-density of {ci.name} summed over the data"))

        # ---- gradient
        c, gfn = prog.method(ci.name, "_log_likelihood_gradient")
        ret = last_return(gfn)
        ok = (ret is not None and isinstance(ret.value, ast.BinOp) and isinstance(ret.value.op, ast.MatMult)
              and isinstance(ret.value.right, ast.Name) and ret.value.right.id == gfn.args.args[2].arg)
        # ... the Jacobian the caller's model returned, as returned: the parameter is not re-bound or written into on the way
        jn_ = gfn.args.args[2].arg
        for st_ in ast.walk(gfn):
            tg_ = st_.targets if isinstance(st_, ast.Assign) else [st_.target] if isinstance(st_, (ast.AugAssign, ast.AnnAssign)) else []
            for t_ in tg_:
                for el_ in (t_.elts if isinstance(t_, ast.Tuple) else [t_]):
                    b_ = el_
                    while isinstance(b_, ast.Subscript):
                        b_ = b_.value
                    if isinstance(b_, ast.Name) and b_.id == jn_:
                        ok = False
        obs.append(struct_ob("jacobian-contraction", qual(c, gfn), ok,
                             "the gradient must be (dL/dF) @ predictions_jacobian", REL, gfn.lineno,
                             slots={"return": U(ret.value) if ret else None}))
        if ok:
            ex = make_expander(prog, ci)
            env = {"predictions": R.sym("predictions"), gfn.args.args[2].arg: R.sym("J")}
            guard(lambda: ex.run_until(gfn.body, env, ret))
            dl = guard(lambda: ex.eval(ret.value.left, env))
            want = anf.diff(summand, ("sym", "predictions"))
            obs.append(formula_ob("gradient-is-derivative", qual(c, gfn), dl, want, REL, gfn.lineno,
                                  what=f"d(log-density)/d(prediction) of {ci.name}"))
        else:
            obs.append(struct_ob("gradient-is-derivative", qual(c, gfn), False,
                                 "gradient return is not of the contraction form, derivative not comparable",
                                 REL, gfn.lineno))

        # ---- wiring and negations (through the concrete class)
        cb, call = prog.method(ci.name, "__call__")
        cb2, grad = prog.method(ci.name, "gradient")
        cb3, cost = prog.method(ci.name, "cost")
        cb4, cgrad = prog.method(ci.name, "cost_gradient")
        theta = R.sym("theta")

        def expand(fn_):
            ex_ = make_expander(prog, ci)
            ex_.opaque_self_attrs = {"model", "model_jacobian"}

            def refresh_arm(node, env_):
                # a memoising branch (its body stores attributes of self) is followed on its refreshing arm; that the stale
                # arm is only taken for the same argument is the business of the cache-key obligation below
                if not isinstance(node, ast.If):
                    return "unsupported"
                stores = any(isinstance(t, ast.Attribute) and isinstance(t.ctx, ast.Store) and U(t.value) == "self"
                             for st_ in node.body for t in ast.walk(st_))
                return "body" if stores else "unsupported"
            ex_.on_if = refresh_arm
            return guard(lambda: ex_.run(fn_.body, {fn_.args.args[1].arg: theta}))

        memo_methods = ["__call__", "gradient"] + sorted(m2 for c2 in prog.mro(ci) for m2 in c2.methods
                                                       if m2 not in ("__call__", "gradient", "__init__") and c2.name != "object")
        seen_m = set()
        for m_ in memo_methods:
            if m_ in seen_m or prog.find_method(ci, m_)[1] is None or not prog.find_method(ci, m_)[1].args.args:
                continue
            seen_m.add(m_)
            try:
                o_ = refresh_obligation(prog, "cache-key", ci.name, m_)
            except Exception:
                continue
            if not o_.ok or o_.slots.get("conditional"):
                o_.construct += f"[{ci.name}]"
                obs.append(o_)
        v_call = expand(call)
        ex = make_expander(prog, ci)
        F_model = anf.fn_("self.model", theta)
        J_model = anf.fn_("self.model_jacobian", theta)
        want_call = guard(lambda: make_expander(prog, ci).run(fn.body, {"predictions": F_model}))
        obs.append(formula_ob("wiring", qual(cb, call) + f"[{ci.name}]", v_call, want_call, REL, call.lineno,
                              what="__call__(theta) = _log_likelihood(model(theta))", tier="S"))
        v_grad = expand(grad)
        want_grad = guard(lambda: make_expander(prog, ci).run(
            gfn.body, {"predictions": F_model, gfn.args.args[2].arg: J_model}))
        obs.append(formula_ob("wiring", qual(cb2, grad) + f"[{ci.name}]", v_grad, want_grad, REL, grad.lineno,
                              what="gradient(theta) = _log_likelihood_gradient(model(theta), model_jacobian(theta))",
                              tier="S"))
        v_cost = expand(cost)
        obs.append(formula_ob("negations", qual(cb3, cost) + f"[{ci.name}]", v_cost, -v_call, REL, cost.lineno,
                              what="cost = -log-likelihood"))
        v_cg = expand(cgrad)
        obs.append(formula_ob("negations", qual(cb4, cgrad) + f"[{ci.name}]", v_cg, -v_grad, REL, cgrad.lineno,
                              what="cost_gradient = -gradient"))

    obs.extend(purity_obligations(prog, "arguments-not-mutated", [base] + subclasses))

    obs.extend(dtype_hazard_obligations(prog, "float-arithmetic", ['inference/likelihoods.py']))
    from .common import call_order_obligations
    obs.extend(call_order_obligations(prog, "arguments-in-order", ['inference/likelihoods.py']))
    from .common import identity_memo_obligations
    obs.extend(identity_memo_obligations(prog, "result-keyed-on-values", ['inference/likelihoods.py']))
    obs.extend(overflow_obligations(prog, "overflow-safe", prog.subclasses("Likelihood")))

    meta = {
        "explanation": "AST def-use expansion of each likelihood's value / gradient expression into an "
                       "algebraic normal form (exact rational coefficients, exp/log/sqrt identities, linear "
                       "Sum operator) and comparison with the named reference log-density and its symbolic "
                       "derivative; structural checks of the Jacobian contraction, constructor wiring and negations. "
                       "Decides formula conformance for every data vector and parameter value at once; does not "
                       "decide floating-point behaviour in the tails.",
        "assumptions": ["numpy exp/log/sqrt/logaddexp/sum implement the mathematical functions",
                        "uncertainties are positive (validated by Likelihood.__init__)"],
        "info": info,
        "extra": {"classes_checked": [c.name for c in subclasses if c.name in REFERENCE]},
    }
    return obs, FLOORS, meta
