"""C06 - priors are normalised, sample from themselves, compose by index (tier F + S).

Decides: each prior's in-support value is the reference log-density; its gradient the
derivative; the law named in sample() has that same density; bounds equal the support of
that law; out-of-support branches return the floor; index routing in JointPrior / combine /
Posterior is consistent.  Does not decide: statistical quality of the draws (numpy).
"""
from __future__ import annotations
import ast
from ..model import qual, get_kw
from ..symx import Expander, ref_eval
from ..anf import R
from .. import anf
from .common import stored_state_obligations, memo_obligations, dtype_hazard_obligations, formula_ob, struct_ob, guard, last_return, U
from ..report import AnalysisError
from ..term import Resolver, pmatch, find_all, abstract, anf_of
from ..seq import Layouts, UNKNOWN, show

REL = "inference/priors.py"
POST = "inference/posterior.py"

# numpy Generator law -> (log-density in x and its keyword parameters, support (lo, hi) as keyword names / constants)
LAWS = {
    "normal": ("-0.5*((x-loc)/scale)**2 - log(scale) - 0.5*log(2*pi)", (None, None)),
    "exponential": ("-x/scale - log(scale)", (0.0, None)),
    "uniform": ("-log(high-low)", ("low", "high")),
}
# class -> (law it is named after, parameter attribute for each law keyword)
CLASS_LAW = {
    "GaussianPrior": ("normal", {"loc": "mean", "scale": "sigma"}),
    "ExponentialPrior": ("exponential", {"scale": "beta"}),
    "UniformPrior": ("uniform", {"low": "lower", "high": "upper"}),
}
FLOORS = {"float-arithmetic": 2, "density-form": 3, "gradient-is-derivative": 3, "sampler-density-agreement": 6,
          "bounds-are-support": 3, "support-guard": 2, "routing": 7, "posterior-sum": 4,
          "guess-order": 1, "combine-coverage": 2, "received-arrays": 4, "components-not-updated": 6, "negations": 2}

T = "theta[self.variables]"


def expander(prog, ci):
    ex = Expander(prog, ci.module, ci)
    ex.array_pred = lambda a: a[0] == "sym" and (a[1].startswith("self.") or a[1].startswith("theta["))
    ex.ctor_methods = ("__init__",)
    return ex


def floor_const(node):
    """True if node is a large negative literal (the out-of-support floor)."""
    try:
        v = ast.literal_eval(node)
    except Exception:
        return False
    return isinstance(v, (int, float)) and v <= -1e50


def run(prog, tier):
    anf.reset()
    obs, info = [], []
    mi = prog.module(REL)
    is_arr = lambda a: a[0] == "sym" and (a[1].startswith("self.") or a[1].startswith("theta["))

    for ci in prog.subclasses("BasePrior"):
        if ci.name == "JointPrior":
            continue
        if ci.name not in CLASS_LAW:
            info.append(f"C06 sweep: BasePrior subclass {ci.name} has no reference law in the rule table; not checked")
            continue
        law, pmap = CLASS_LAW[ci.name]
        # the index list is stored in the order given: parameter k of the prior belongs to index k of the list, so anything that
        # re-orders or thins it (sorted, unique, set, reversed) pairs parameters with other variables
        init_ = ci.methods.get("__init__")
        if init_ is not None:
            reorder = []
            fns_ = [init_]
            vc_, vfn_ = prog.find_method(ci, "validate_variable_indices")
            if vfn_ is not None:
                fns_.append(vfn_)
            for fn_ in fns_:
                idx_names = {"variables"} if fn_ is init_ else set()
                for st_ in ast.walk(fn_):
                    if isinstance(st_, ast.Assign) and len(st_.targets) == 1:
                        t_ = st_.targets[0]
                        is_idx = (isinstance(t_, ast.Attribute) and t_.attr == "variables") or \
                                 (fn_ is vfn_ and isinstance(t_, ast.Name) and t_.id == fn_.args.args[1].arg)
                        if is_idx:
                            for x in ast.walk(st_.value):
                                if isinstance(x, ast.Call) and U(x.func).split(".")[-1] in ("sorted", "sort", "unique", "set", "frozenset", "reversed", "argsort", "shuffle", "permutation"):
                                    reorder.append((st_.lineno, U(st_)[:80]))
                    if isinstance(st_, ast.Expr) and isinstance(st_.value, ast.Call) and isinstance(st_.value.func, ast.Attribute) \
                            and st_.value.func.attr in ("sort", "reverse") and (U(st_.value.func.value) == "self.variables" or
                                                                               (fn_ is vfn_ and U(st_.value.func.value) == fn_.args.args[1].arg)):
                        reorder.append((st_.lineno, U(st_)[:80]))
                if fn_ is vfn_:
                    for r_ in ast.walk(fn_):
                        if isinstance(r_, ast.Return) and r_.value is not None and any(
                                isinstance(x, ast.Call) and U(x.func).split(".")[-1] in ("sorted", "unique", "set", "reversed") for x in ast.walk(r_.value)):
                            reorder.append((r_.lineno, U(r_)[:80]))
            obs.append(struct_ob("routing", qual(ci, init_) + "[index-order]", not reorder,
                                 "the variable indices must be kept in the order given (parameter k of the prior goes with index k): "
                                 + "; ".join(f"line {l}: `{t}`" for l, t in reorder[:2]), REL, reorder[0][0] if reorder else init_.lineno, tier="F"))
        dens_text, support = LAWS[law]
        n_atom = None
        # the size atom: self.n_params expands to size(<first parameter attribute>)
        ex0 = expander(prog, ci)
        n_atom = guard(lambda: ex0.self_attr("n_params", {}))
        env_ref = {"x": R.sym(T)}
        for kw, attr in pmap.items():
            env_ref[kw] = R.sym(f"self.{attr}")
        summand = guard(lambda: ref_eval(dens_text, env_ref))
        ref_total = anf.sum_(summand, is_arr, n_atom)

        # ---------------- density-form (in-support path) + support guard
        c, fn = prog.method(ci.name, "__call__")
        ex = expander(prog, ci)
        ex.n_atom = n_atom
        guards = []

        own_ifs = {id(n) for n in ast.walk(fn) if isinstance(n, ast.If)}

        def on_if(node, env, guards=guards, own_ifs=own_ifs):
            if id(node) in own_ifs and node not in guards:
                guards.append(node)
            if not isinstance(node, ast.If):
                return "unsupported"
            body_ret = [s for s in node.body if isinstance(s, ast.Return)]
            if body_ret and floor_const(body_ret[0].value):
                return "skip"          # out-of-support branch; continue on the in-support path
            return "body"              # in-support branch returns the value
        ex.on_if = on_if
        got = guard(lambda: ex.run(fn.body, {"theta": R.sym("theta")}))
        obs.append(formula_ob("density-form", qual(c, fn), got, ref_total, REL, fn.lineno,
                              what=f"in-support log-density of {ci.name} (law: {law})"))
        if support != (None, None):
            # every return that is not the in-support value is the floor constant, and the guard
            # compares the routed coordinates with the support limits
            rets = [r for r in ast.walk(fn) if isinstance(r, ast.Return)]
            floors = [r for r in rets if floor_const(r.value)]
            txt = " ".join(U(g.test) for g in guards)
            body_txt = U(fn)
            if law == "exponential":
                rz_g = Resolver(fn)
                ok = len(floors) == 1 and len(guards) == 1 and _cmp_is(rz_g.term(guards[0].test, guards[0]), "Lt", "theta[self.variables]", 0.0)
            else:
                ok = len(floors) == 1 and _uniform_inside(fn)
            obs.append(struct_ob("support-guard", qual(c, fn), ok,
                                 f"outside the support [{support}] the value must be the floor constant and the guard "
                                 f"must compare theta[self.variables] with the limits; guards: {txt}",
                                 REL, fn.lineno, slots={"guards": txt, "floor_returns": len(floors)}))

        # ---------------- gradient
        c, gfn = prog.method(ci.name, "gradient")
        ret = last_return(gfn)
        want = anf.diff(summand, ("sym", T))
        ex = expander(prog, ci)
        ex.n_atom = n_atom
        val = ret.value
        detail = ""
        if isinstance(val, ast.Call) and U(val.func) == "where" and len(val.args) == 3:
            # where(in-support, derivative, 0)
            cond_ok = _cmp_is(val.args[0], "GtE", "theta[self.variables]", 0.0) and support[0] == 0.0
            zero = guard(lambda: ex.eval(val.args[2], {"theta": R.sym("theta")}))
            got = guard(lambda: ex.eval(val.args[1], {"theta": R.sym("theta")}))
            ob = formula_ob("gradient-is-derivative", qual(c, gfn), got, want, REL, gfn.lineno,
                            what=f"d(log-density)/d(theta) of {ci.name} inside the support")
            if ob.ok and not (cond_ok and isinstance(zero, R) and zero.is_zero()):
                ob = struct_ob("gradient-is-derivative", qual(c, gfn), False,
                               "where(...) must select the derivative on the support and zero outside it",
                               REL, gfn.lineno)
            obs.append(ob)
        else:
            got = guard(lambda: ex.run(gfn.body, {"theta": R.sym("theta")}))
            obs.append(formula_ob("gradient-is-derivative", qual(c, gfn), got, want, REL, gfn.lineno,
                                  what=f"d(log-density)/d(theta) of {ci.name}"))

        # ---------------- sampler law agrees with the density
        c, sfn = prog.method(ci.name, "sample")
        ret = last_return(sfn)
        call = ret.value if ret else None
        # successive calls give successive draws: the generator is the module's / the instance's, not one built (and seeded) in the call
        made = [n for n in ast.walk(sfn) if isinstance(n, ast.Call) and U(n.func).split(".")[-1] in
                ("default_rng", "RandomState", "Generator", "seed", "SeedSequence", "PCG64", "MT19937")]
        obs.append(struct_ob("sampler-density-agreement", qual(c, sfn) + "[generator]", not made,
                             f"`{U(made[0])[:80] if made else ''}` builds a generator inside sample(): with a fixed seed every call returns the "
                             f"same vector (the draws are not samples of the prior), with none the module generator's seeding is bypassed",
                             REL, made[0].lineno if made else sfn.lineno, tier="E"))
        # a law written as location + scale x standard draw: a + b U(0,1) is uniform(a, a + b); m + s N(0,1) is normal(m, s)
        if call is not None and not (isinstance(call, ast.Call) and isinstance(call.func, ast.Attribute) and call.func.attr in LAWS):
            rt_ = Resolver(sfn, prog, ci.module, ci).return_terms()
            t_ = rt_[0] if len(rt_) == 1 else call
            for pt_, mk_ in (("_a + _b * _g.random(*_)", lambda b: f"{b['_g']}.uniform(low={b['_a']}, high={b['_a']} + {b['_b']})"),
                             ("_a + _b * _g.random(**_)", lambda b: f"{b['_g']}.uniform(low={b['_a']}, high={b['_a']} + {b['_b']})"),
                             ("_a + _b * _g.normal(**_)", lambda b: f"{b['_g']}.normal(loc={b['_a']}, scale={b['_b']})"),
                             ("_a + _b * _g.standard_normal(*_)", lambda b: f"{b['_g']}.normal(loc={b['_a']}, scale={b['_b']})"),
                             ("_b * _g.exponential(**_)", lambda b: f"{b['_g']}.exponential(scale={b['_b']})"),
                             ("_b * _g.standard_exponential(*_)", lambda b: f"{b['_g']}.exponential(scale={b['_b']})")):
                b_ = pmatch(t_, pt_)
                if b_ is not None and "_a" in b_ and "uniform" in mk_(b_):
                    hb_ = pmatch(ast.parse(b_["_b"], mode="eval").body, "_h - _a", {"_a": b_["_a"]})
                    if hb_ is not None:
                        mk_ = (lambda h_: (lambda b: f"{b['_g']}.uniform(low={b['_a']}, high={h_})"))(hb_["_h"])     # a + (h - a) U = uniform(a, h)
                if b_ is not None:
                    # the standard draw itself carries no location / scale of its own
                    inner = [x for x in ast.walk(t_) if isinstance(x, ast.Call) and isinstance(x.func, ast.Attribute)
                             and x.func.attr in ("random", "normal", "standard_normal", "exponential", "standard_exponential")]
                    if len(inner) == 1 and not [k_ for k_ in inner[0].keywords if k_.arg not in ("size",)] and (
                            inner[0].func.attr in ("random", "standard_normal", "standard_exponential") or not inner[0].args):
                        call = ast.parse(mk_(b_), mode="eval").body
                        ast.copy_location(call, ret.value)
                        for x in ast.walk(call):
                            ast.copy_location(x, ret.value)
                        break
        ok_shape = (isinstance(call, ast.Call) and isinstance(call.func, ast.Attribute)
                    and call.func.attr in LAWS)
        if not ok_shape:
            obs.append(struct_ob("sampler-density-agreement", qual(c, sfn), False,
                                 "sample() must return a draw from a numpy Generator law in the rule table",
                                 REL, sfn.lineno))
        else:
            slaw = call.func.attr
            stext, ssupport = LAWS[slaw]
            ex = expander(prog, ci)
            env2 = {"x": R.sym(T)}
            missing = []
            for kw in [k for k in ("loc", "scale", "low", "high") if k in stext]:
                node = get_kw(call, kw, pos={"loc": 0, "scale": 1 if slaw == "normal" else 0, "low": 0, "high": 1}[kw])
                if node is None:
                    missing.append(kw)
                else:
                    env2[kw] = guard(lambda: ex.eval(node, {}))
            if missing:
                obs.append(struct_ob("sampler-density-agreement", qual(c, sfn), False,
                                     f"draw {U(call)} leaves {missing} at numpy defaults",
                                     REL, sfn.lineno))
            else:
                sdens = anf.sum_(guard(lambda: ref_eval(stext, env2)), is_arr, n_atom)
                # compared with the code's own value expression (`got` of density-form is re-derived)
                ex3 = expander(prog, ci)
                ex3.n_atom = n_atom
                ex3.on_if = on_if
                code_val = guard(lambda: ex3.run(prog.method(ci.name, "__call__")[1].body, {"theta": R.sym("theta")}))
                obs.append(formula_ob("sampler-density-agreement", qual(c, sfn), code_val, sdens, REL, sfn.lineno,
                                      what=f"log-density of the law drawn in sample() ({slaw}) vs the value __call__ returns"))
            # ---------------- bounds are the support of the law that is sampled
            ex = expander(prog, ci)
            init = ci.methods["__init__"]
            bsites = [s for s in prog.self_assignments(ci, "bounds", methods={"__init__"})]
            okb, why = False, "no single self.bounds assignment in __init__"
            if len(bsites) == 1:
                okb, why = _bounds_match(bsites[0][3], ssupport, call, slaw)
            obs.append(struct_ob("bounds-are-support", qual(ci, init), okb,
                                 f"advertised bounds must equal the support of {slaw}: {why}", REL, init.lineno,
                                 slots={"bounds": U(bsites[0][3]) if bsites else None, "support": str(ssupport)}))

        # ---------------- combine: one order for indices and every parameter array
        c, cfn = prog.method(ci.name, "combine")
        obs.extend(_combine(prog, ci, c, cfn, list(pmap.values())))

    # ---------------- JointPrior routing
    jp = prog.cls("JointPrior")
    for mname in ("gradient", "sample"):
        c, fn = prog.method("JointPrior", mname)
        obs.append(_scatter(c, fn, mname, prog))
    c, fn = prog.method("JointPrior", "__call__")
    ret = last_return(fn)
    ok = False
    if ret is not None and isinstance(ret.value, ast.Call) and U(ret.value.func) == "sum":
        g = ret.value.args[0]
        if isinstance(g, (ast.GeneratorExp, ast.ListComp)) and len(g.generators) == 1 and not g.generators[0].ifs:
            gen = g.generators[0]
            ok = (U(gen.iter) == "self.components" and isinstance(g.elt, ast.Call)
                  and U(g.elt.func) == U(gen.target)
                  and [U(a) for a in g.elt.args] == [fn.args.args[1].arg])
    obs.append(struct_ob("routing", qual(c, fn), ok,
                         "JointPrior.__call__ must be the sum over all components of c(theta)", REL, fn.lineno,
                         slots={"return": U(ret.value) if ret else None}))
    init = jp.methods["__init__"]
    obs.append(_joint_bounds(jp, init, prog))
    obs.append(_combine_coverage(prog, jp, init))
    obs.append(_merge_paths(prog, jp, init))

    # ---------------- Posterior
    pc = prog.cls("Posterior")
    theta = R.sym("theta")
    L, P = anf.fn_("self.likelihood", theta), anf.fn_("self.prior", theta)
    LG, PG = anf.fn_("self.likelihood.gradient", theta), anf.fn_("self.prior.gradient", theta)
    for mname, want in (("__call__", L + P), ("gradient", LG + PG), ("cost", -(L + P)), ("cost_gradient", -(LG + PG))):
        c, fn = prog.method("Posterior", mname)
        ex = Expander(prog, pc.module, pc)
        ex.opaque_self_attrs = {"likelihood", "prior"}
        got = guard(lambda: ex.run(fn.body, {fn.args.args[1].arg: theta}))
        obs.append(formula_ob("posterior-sum", qual(c, fn), got, want, POST, fn.lineno,
                              what=f"Posterior.{mname} = (+/-) likelihood + prior", tier="S"))
    c, fn = prog.method("Posterior", "generate_initial_guesses")
    obs.append(_guess_order(c, fn))
    obs.extend(_received_arrays_not_mutated(prog))
    # cost / cost_gradient of every prior are the negated value / gradient (inherited from BasePrior unless overridden)
    for ci_ in [prog.cls("BasePrior")] + prog.subclasses("BasePrior"):
        for mname, pats in (("cost", ("-self(_t)", "-self.__call__(_t)")), ("cost_gradient", ("-self.gradient(_t)",))):
            fn_ = ci_.methods.get(mname)
            if fn_ is None:
                continue
            rz_ = Resolver(fn_, prog, ci_.module, ci_)
            rets_ = rz_.return_terms()
            okn = len(rets_) == 1 and any(pmatch(rets_[0], pt, {"_t": fn_.args.args[1].arg}) is not None for pt in pats)
            obs.append(struct_ob("negations", qual(ci_, fn_), okn,
                                 f"{mname} must be the negated {'log-probability' if mname == 'cost' else 'gradient'} at the same point: returns "
                                 f"`{U(rets_[0])[:120] if rets_ else None}`", ci_.module.relpath, fn_.lineno))
    # building a combined / joint / posterior object never updates the component objects it is given
    sites = []
    for ci in [prog.cls("BasePrior")] + prog.subclasses("BasePrior") + [prog.cls("Posterior")]:
        for mname in ("combine", "__init__"):
            fn = ci.methods.get(mname)
            if fn is None or len(fn.args.args) < 2:
                continue
            roots = {a.arg: a.arg for a in fn.args.args[1:]}
            sites.append((ci, fn, roots, None))
    obs.extend(stored_state_obligations(prog, "components-not-updated", sites,
                                        "the component object handed in is changed, so it no longer describes its own variables when it "
                                        "is used again (alone, or in another joint prior built in a different order)"))

    obs.extend(dtype_hazard_obligations(prog, "float-arithmetic", ['inference/priors.py', 'inference/posterior.py']))
    from .common import call_order_obligations
    obs.extend(call_order_obligations(prog, "arguments-in-order", ['inference/priors.py', 'inference/posterior.py']))
    from .common import identity_memo_obligations
    obs.extend(identity_memo_obligations(prog, "result-keyed-on-values", ['inference/priors.py', 'inference/posterior.py']))

    obs.extend(memo_obligations(prog, "cache-key", [prog.cls("BasePrior")] + prog.subclasses("BasePrior") + [prog.cls("Posterior")]))

    meta = {
        "explanation": "Normal-form equality of each prior's in-support value with the log-density of the numpy law "
                       "its sample() draws from, symbolic derivative for gradients, structural checks of support guards, "
                       "bounds, index scatter in JointPrior, iteration order in combine(), Posterior sums and guess ordering. "
                       "Decides the named formula/routing clauses for all hyper-parameters and index assignments; "
                       "does not decide the statistical quality of numpy's generators.",
        "assumptions": ["numpy.random.Generator.normal/exponential/uniform sample the laws they are named after",
                        "scale parameters positive (validated by validate_prior_parameters)"],
        "info": info,
    }
    return obs, FLOORS, meta


# ---------------------------------------------------------------------------- helpers
def _cmp_is(test, opname, left_text, right_const):
    """test is `(<left> OP const).any()`-like or the bare comparison."""
    node = test
    neg = False
    while isinstance(node, ast.UnaryOp) and isinstance(node.op, ast.Not):
        node, neg = node.operand, not neg
    red = None
    if isinstance(node, ast.Call) and isinstance(node.func, ast.Attribute) and node.func.attr in ("any", "all"):
        red = node.func.attr
        node = node.func.value
    if isinstance(node, ast.Compare) and len(node.ops) == 1:
        try:
            rc = ast.literal_eval(node.comparators[0])
        except Exception:
            return False
        op = type(node.ops[0]).__name__
        if U(node.left) != left_text or rc != right_const:
            return False
        # "some coordinate is out of support":  (x OP c).any()   or   not (x co-OP c).all()   (a bare comparison is a single coordinate)
        CO = {"Lt": "GtE", "Gt": "LtE", "LtE": "Gt", "GtE": "Lt"}
        if not neg:
            return op == opname and red in (None, "any")
        return op == CO.get(opname) and red in (None, "all")
    return False


def _uniform_inside(fn):
    """value returned iff ((self.lower <= t) & (t <= self.upper)).all() with t = theta[self.variables] (resolved terms)."""
    rz = Resolver(fn)
    th = fn.args.args[1].arg
    t = f"{th}[self.variables]"
    ifs = [s for s in fn.body if isinstance(s, ast.If)]
    if len(ifs) != 1:
        return False
    test = rz.term(ifs[0].test, ifs[0])
    pats = [f"((self.lower <= {t}) & ({t} <= self.upper)).all()", f"(({t} >= self.lower) & ({t} <= self.upper)).all()",
            f"((self.lower <= {t}) & (self.upper >= {t})).all()", f"(({t} >= self.lower) & (self.upper >= {t})).all()",
            f"(({t} <= self.upper) & (self.lower <= {t})).all()", f"(({t} <= self.upper) & ({t} >= self.lower)).all()"]
    in_body = any(isinstance(s, ast.Return) and U(rz.term(s.value, s)) == "self.normalisation" for s in ifs[0].body)
    return any(pmatch(test, pt) is not None for pt in pats) and in_body


def _bounds_match(node, support, call, law):
    txt = U(node)
    lo, hi = support
    if isinstance(lo, str):
        # uniform: [(lo, up) for lo, up in zip(self.lower, self.upper)] with the draw's low/high
        low = get_kw(call, "low", 0)
        high = get_kw(call, "high", 1)
        holder = ast.parse("def _f(self):\n    return 0\n").body[0]
        holder.body[0].value = node
        L_ = Layouts(holder)
        lay = L_.layout_of(node, holder.body[0])
        if low is not None and high is not None and lay == (("splice", f"zip({U(low)}, {U(high)})"),):
            return True, ""
        return False, f"bounds {txt} are not the (low, high) pairs of the draw"
    # constant pair replicated n_params times
    if isinstance(node, ast.BinOp) and isinstance(node.op, ast.Mult) and isinstance(node.left, ast.List) \
            and len(node.left.elts) == 1:
        try:
            pair = ast.literal_eval(node.left.elts[0])
        except Exception:
            return False, f"bounds {txt} not a constant pair"
        if tuple(pair) == (lo, hi) and U(node.right) == "self.n_params":
            return True, ""
        return False, f"bounds {txt} differ from the support ({lo}, {hi})"
    return False, f"bounds {txt} not recognised"


def _combine(prog, ci, c, cfn, attrs):
    """All parameter arrays and the index list are built by iterating `priors` in the same order,
    and handed to the constructor under their own keyword."""
    out = []
    pname = cfn.args.args[1].arg
    problems = []
    L = Layouts(cfn, prog, c.module, c)
    rets = L.rz.returns()
    kws = {}
    if len(rets) == 1 and isinstance(rets[0].value, ast.Call) and U(rets[0].value.func) == cfn.args.args[0].arg:
        call = L.rz.norm_call(rets[0].value)
        init_params_ = [a.arg for a in ci.methods["__init__"].args.args[1:]]
        pairs = list(zip(init_params_, call.args)) + [(k.arg, k.value) for k in call.keywords]
        for kname, v in pairs:
            lay = L.layout_of(v, rets[0])
            attr_ = None
            if lay is not UNKNOWN and len(lay) == 1 and lay[0][0] == "flat" and lay[0][1] == ("iter", pname) \
                    and len(lay[0][2]) == 1 and lay[0][2][0][0] == "splice" and lay[0][2][0][1].startswith("va0."):
                attr_ = lay[0][2][0][1][4:]
            else:
                problems.append(f"`{kname}` is {show(lay)}, not a concatenation over `{pname}` in order")
            kws[kname] = attr_
    built = dict(kws)
    init = ci.methods["__init__"]
    init_params = [a.arg for a in init.args.args[1:]]
    # constructor keyword -> attribute: parameter p is stored as self.<attr> ; accept p == attr
    # or the plural/variable_indices convention confirmed from the constructor body
    want = {}
    for p in init_params:
        if p == "variable_indices":
            want[p] = "variables"
        else:
            want[p] = p
    ok = not problems and kws == want
    out.append(struct_ob("routing", qual(c, cfn), ok,
                         f"combine must concatenate every parameter array and the indices over `{pname}` in one order and "
                         f"pass each to its own keyword; built={built} keywords={kws} expected={want} {problems}",
                         REL, cfn.lineno, slots={"built": built, "keywords": kws}))
    return out


def _scatter(c, fn, mname, prog=None):
    """for c in self.components: out[c.variables] = c.<mname>(...)   (decided on resolved terms)"""
    rz = Resolver(fn, prog, c.module, c)
    why = []
    loops = [st for st in ast.walk(fn) if isinstance(st, ast.For) and U(rz.term(st.iter, st)) == "self.components" and isinstance(st.target, ast.Name)]
    stores = []
    for lp in loops:
        v = lp.target.id
        for a in ast.walk(lp):
            if isinstance(a, ast.Assign) and isinstance(a.targets[0], ast.Subscript):
                stores.append((lp, v, a))
    if len(stores) != 1:
        why.append(f"{len(stores)} scatter statements in loops over self.components")
    else:
        lp, v, a = stores[0]
        t = a.targets[0]
        args = ", ".join(p.arg for p in fn.args.args[1:])
        val = rz.term(a.value, a)
        rets = rz.returns()
        if U(t.slice) != f"{v}.variables":
            why.append(f"`{U(a)}` does not index with the component's own variables")
        if pmatch(val, f"{v}.{mname}({args})") is None:
            why.append(f"the scattered value is `{U(val)[:160]}`, not {v}.{mname}({args})")
        if not (len(rets) == 1 and U(rz.term(rets[0].value, rets[0], keep=(U(t.value),))) == U(t.value)):
            why.append("the scattered array is not what is returned")
    return struct_ob("routing", qual(c, fn), not why,
                     f"every component's {mname} must be written to that component's own `variables`: " + "; ".join(why),
                     REL, fn.lineno)


def _joint_bounds(jp, init, prog=None):
    """bounds paired with variables through one zip over the same component order, sorted on the index."""
    L = Layouts(init, prog, jp.module, jp)
    flat_b = (("flat", ("iter", "self.components"), (("splice", "va0.bounds"),)),)
    flat_i = (("flat", ("iter", "self.components"), (("splice", "va0.variables"),)),)
    nb = [k for k, v in L.state.items() if v == flat_b]
    ni = [k for k, v in L.state.items() if v == flat_i]
    why = []
    sb = [st for st in ast.walk(init) if isinstance(st, ast.Assign) and U(st.targets[0]) == "self.bounds"]
    if len(sb) != 1:
        why.append(f"{len(sb)} assignments of self.bounds")
    else:
        t = L.rz.term(sb[0].value, sb[0], keep=tuple(nb + ni))
        ok = False
        # the two zipped sequences may also be written in place: accept them when their layouts are the two concatenations
        for pt in ("[_v[0] for _v in sorted([(_b, _i) for _b, _i in zip(_B, _I)], key=lambda z: z[1])]",
                   "[_v[0] for _v in sorted(zip(_B, _I), key=lambda z: z[1])]",
                   "[_b for _b, _i in sorted(zip(_B, _I), key=lambda z: z[1])]"):
            bb = pmatch(t, pt)
            if bb is not None:
                lb = L.layout_of(ast.parse(bb["_B"], mode="eval").body, sb[0])
                li = L.layout_of(ast.parse(bb["_I"], mode="eval").body, sb[0])
                if lb == flat_b and li == flat_i:
                    ok = True
        for b_ in nb or ["?"]:
            for i_ in ni or ["?"]:
                for pt in (f"[_v[0] for _v in sorted([(_b, _i) for _b, _i in zip({b_}, {i_})], key=lambda z: z[1])]",
                           f"[_v[0] for _v in sorted(zip({b_}, {i_}), key=lambda z: z[1])]",
                           f"[_b for _b, _i in sorted(zip({b_}, {i_}), key=lambda z: z[1])]",
                           f"[_v[1] for _v in sorted([(_i, _b) for _b, _i in zip({b_}, {i_})], key=lambda z: z[0])]",
                           f"[_v[1] for _v in sorted(zip({i_}, {b_}), key=lambda z: z[0])]"):
                    if b_ != "?" and i_ != "?" and pmatch(t, pt) is not None:
                        ok = True
        if not ok:
            why.append(f"self.bounds is `{U(t)[:220]}`; bound lists {nb}, index lists {ni}")
    return struct_ob("routing", f"{jp.module.name}.JointPrior.__init__[bounds]", not why,
                     "JointPrior.bounds must pair each component bound with its variable index (one zip over the "
                     "same component order) and sort on the index: " + "; ".join(why), REL, init.lineno)


def _combine_coverage(prog, jp, init):
    """Every prior class that defines combine() is merged by JointPrior.__init__ (else it is dropped)."""
    listed = set()
    for st in ast.walk(init):
        if isinstance(st, ast.For) and isinstance(st.iter, (ast.List, ast.Tuple)):
            names = [U(e) for e in st.iter.elts]
            if any(n in prog.classes for n in names):
                listed |= set(names)
    have = {ci.name for ci in prog.subclasses("BasePrior") if "combine" in ci.methods}
    ok = have <= listed and bool(listed)
    return struct_ob("combine-coverage", f"{jp.module.name}.JointPrior.__init__", ok,
                     f"prior classes {sorted(have - listed)} are not in the merge list and would be dropped from the joint prior",
                     REL, init.lineno, slots={"listed": sorted(listed), "classes_with_combine": sorted(have)})


def _merge_paths(prog, jp, init):
    """In the merge loop every non-empty group of same-class components ends up in self.components exactly once: a single
    component as it is (or combined), several combined into one.  Decided by evaluating the group-size tests for sizes 1, 2, 3
    (the tests compare len(group) with integer literals, so three sizes cover every size >= 1)."""
    loops = [st for st in ast.walk(init) if isinstance(st, ast.For) and isinstance(st.iter, (ast.List, ast.Tuple))
             and any(U(e) in prog.classes for e in st.iter.elts)]
    if len(loops) != 1:
        raise AnalysisError(f"anchor vanished: merge loop of JointPrior.__init__ ({len(loops)} found)")
    lp = loops[0]
    cls_var = U(lp.target)
    grp = None
    for st in lp.body:
        if isinstance(st, ast.Assign) and isinstance(st.targets[0], ast.Name) and isinstance(st.value, ast.ListComp) \
                and any(isinstance(n, ast.Call) and U(n.func) == "isinstance" for n in ast.walk(st.value)):
            grp = st.targets[0].id
    if grp is None:
        raise AnalysisError("anchor vanished: per-class group in the merge loop of JointPrior.__init__")

    # the list the groups are collected in: self.components itself, or a local that is stored as self.components afterwards
    sinks = {"self.components"}
    for st in ast.walk(init):
        if isinstance(st, ast.Assign) and U(st.targets[0]) == "self.components" and isinstance(st.value, ast.Name):
            sinks.add(st.value.id)

    def ev(t, n):
        if isinstance(t, ast.UnaryOp) and isinstance(t.op, ast.Not):
            return not ev(t.operand, n)
        if isinstance(t, ast.BoolOp):
            vs = [ev(v, n) for v in t.values]
            return all(vs) if isinstance(t.op, ast.And) else any(vs)
        if isinstance(t, ast.Name) and t.id == grp:
            return n > 0
        if isinstance(t, ast.Compare) and len(t.ops) == 1:
            def val(e):
                if isinstance(e, ast.Constant) and isinstance(e.value, int):
                    return e.value
                if isinstance(e, ast.Call) and U(e.func) == "len" and U(e.args[0]) == grp:
                    return n
                raise AnalysisError(f"merge-paths: test operand `{U(e)}` is not len({grp}) or an integer literal")
            a, b = val(t.left), val(t.comparators[0])
            return {ast.Eq: a == b, ast.NotEq: a != b, ast.Lt: a < b, ast.LtE: a <= b, ast.Gt: a > b, ast.GtE: a >= b}[type(t.ops[0])]
        raise AnalysisError(f"merge-paths: test `{U(t)}` is not a comparison of len({grp}) with integer literals")

    def actions(stmts, n):
        out = []
        for st in stmts:
            if isinstance(st, ast.If):
                out += actions(st.body if ev(st.test, n) else st.orelse, n)
            elif isinstance(st, ast.Expr) and isinstance(st.value, ast.Call) and isinstance(st.value.func, ast.Attribute) \
                    and U(st.value.func.value) in sinks and st.value.args:
                a0 = st.value.args[0]
                txt = U(a0)
                if st.value.func.attr == "extend" and txt == grp:
                    out.append("keep-all")
                elif st.value.func.attr == "append" and txt in (f"{grp}[0]", f"{grp}[-1]"):
                    out.append("keep-one")
                elif st.value.func.attr == "append" and isinstance(a0, ast.Call) and U(a0.func) in (f"{cls_var}.combine",) and U(a0.args[0]) == grp:
                    out.append("combine")
                else:
                    out.append("other:" + txt[:40])
        return out
    why = []
    for n in (1, 2, 3):
        acts = actions(lp.body, n)
        good = acts in (["combine"],) or (n == 1 and acts in (["keep-all"], ["keep-one"]))
        if not good:
            why.append(f"a group of {n} component{'s' if n > 1 else ''} of one class leads to {acts or 'nothing'} (must be kept"
                       f"{' / combined into one' if n > 1 else ''} exactly once)")
    return struct_ob("combine-coverage", f"{jp.module.name}.JointPrior.__init__[group sizes]", not why, "; ".join(why), REL, lp.lineno,
                     slots={"group": grp})


def returns_own_state(fn):
    """True if some return value of fn is (an alias of) an attribute of self - the caller then shares that object."""
    if not fn.args.args:
        return None
    sn = fn.args.args[0].arg
    alias = {}
    for st in ast.walk(fn):
        if isinstance(st, ast.Assign) and len(st.targets) == 1 and isinstance(st.targets[0], ast.Name) \
                and isinstance(st.value, ast.Attribute) and isinstance(st.value.value, ast.Name) and st.value.value.id == sn:
            alias[st.targets[0].id] = st.value.attr
    for r in ast.walk(fn):
        if isinstance(r, ast.Return) and r.value is not None:
            v = r.value
            if isinstance(v, ast.Attribute) and isinstance(v.value, ast.Name) and v.value.id == sn:
                return v.attr
            if isinstance(v, ast.Name) and v.id in alias:
                return alias[v.id]
    return None


def _received_arrays_not_mutated(prog):
    """Posterior / JointPrior may not update in place an array they received from a component's gradient / sample,
    because a component may hand out its own stored array (e.g. a pre-allocated zero gradient)."""
    out = []
    # which array-returning component methods hand out their own state?
    sharing = {}
    for base in ("BasePrior", "Likelihood"):
        if not prog.has_cls(base):
            continue
        for ci in prog.subclasses(base):
            for m in ("gradient", "sample", "cost_gradient"):
                fn = ci.methods.get(m)
                if fn is not None:
                    a = returns_own_state(fn)
                    if a:
                        sharing.setdefault(m, []).append(f"{ci.name}.{m} returns self.{a}")
    for cname in ("Posterior", "JointPrior"):
        ci = prog.cls(cname)
        for mname, fn in ci.methods.items():
            received = {}      # local name -> method it came from
            for st in ast.walk(fn):
                if isinstance(st, ast.Assign) and len(st.targets) == 1 and isinstance(st.targets[0], ast.Name) \
                        and isinstance(st.value, ast.Call) and isinstance(st.value.func, ast.Attribute) \
                        and st.value.func.attr in ("gradient", "sample", "cost_gradient"):
                    received[st.targets[0].id] = st.value.func.attr
            hits = []
            for st in ast.walk(fn):
                tgt = None
                if isinstance(st, ast.AugAssign):
                    tgt = st.target
                elif isinstance(st, ast.Assign) and isinstance(st.targets[0], ast.Subscript):
                    tgt = st.targets[0]
                if tgt is None:
                    continue
                b = tgt
                while isinstance(b, ast.Subscript):
                    b = b.value
                if isinstance(b, ast.Name) and b.id in received and sharing.get(received[b.id]):
                    hits.append((st.lineno, U(st), received[b.id]))
            if mname in ("gradient", "cost_gradient", "sample") or hits:
                msg = ""
                if hits:
                    l, t, m = hits[0]
                    msg = (f"`{t}` (line {l}) updates in place the array received from a component's {m}(); {sharing[m][0]} (its own "
                           f"stored array), so that component's {m} is corrupted for every later call")
                out.append(struct_ob("received-arrays", qual(ci, fn), not hits, msg, ci.module.relpath,
                                     hits[0][0] if hits else fn.lineno, slots={"components_sharing_state": sharing}))
    return out


def _guess_order(c, fn):
    rz = Resolver(fn)
    rets = rz.return_terms()
    n_par = [a.arg for a in fn.args.args[1:]]
    ok, why = False, f"returned term `{U(rets[0])[:200] if rets else None}`"
    cost_is_negation = False
    cfn_ = c.methods.get("cost")
    if cfn_ is not None and len(cfn_.args.args) == 2:
        ct_ = Resolver(cfn_).return_terms()
        cost_is_negation = len(ct_) == 1 and str(U(ct_[0])) in (f"-self.__call__({cfn_.args.args[1].arg})", f"-self({cfn_.args.args[1].arg})")
        call_ = c.methods.get("__call__")
        if not cost_is_negation and call_ is not None and len(call_.args.args) == 2 and call_.args.args[1].arg == cfn_.args.args[1].arg:
            kt_ = Resolver(call_).return_terms()
            # the same expression with a minus sign in front
            cost_is_negation = len(ct_) == 1 and len(kt_) == 1 and isinstance(ct_[0], ast.UnaryOp) and isinstance(ct_[0].op, ast.USub) \
                and str(U(ct_[0].operand)) == str(U(kt_[0]))
    if len(rets) == 1:
        for n_g in n_par:
            for n_s in n_par:
                for pt in (f"sorted([self.prior.sample() for _ in range({n_s})], key=self.cost)[:{n_g}]",
                           f"sorted((self.prior.sample() for _ in range({n_s})), key=self.cost)[:{n_g}]",
                           # heapq.nsmallest(n, it, key) is documented as sorted(it, key=key)[:n]
                           f"nsmallest({n_g}, [self.prior.sample() for _ in range({n_s})], key=self.cost)",
                           f"heapq.nsmallest({n_g}, [self.prior.sample() for _ in range({n_s})], key=self.cost)") + (
                        # descending log-posterior = ascending cost when cost is its exact negation (a reversed sort keeps ties in order)
                        (f"sorted([self.prior.sample() for _ in range({n_s})], key=self.__call__, reverse=True)[:{n_g}]",)
                        if cost_is_negation else ()):
                    if n_g != n_s and pmatch(rets[0], pt) is not None:
                        ok = True
        # decorate - sort - undecorate: the draws held in a local D, ranked through (cost, position) pairs (ties keep the earlier draw,
        # as the stable sort by key does)
        if not ok:
            for st_ in ast.walk(fn):
                if isinstance(st_, ast.Assign) and len(st_.targets) == 1 and isinstance(st_.targets[0], ast.Name):
                    for n_s in n_par:
                        if pmatch(st_.value, f"[self.prior.sample() for _ in range({n_s})]") is not None:
                            D_ = st_.targets[0].id
                            rk = Resolver(fn).term(rz.returns()[0].value, rz.returns()[0], keep=(D_,))
                            for n_g in n_par:
                                for pt in (f"[{D_}[_i] for _c, _i in sorted(zip([self.cost(_s) for _s in {D_}], range({n_s})))[:{n_g}]]",
                                           f"[{D_}[_i] for _c, _i in sorted(zip([self.cost(_s) for _s in {D_}], range(len({D_}))))[:{n_g}]]",
                                           f"[{D_}[_i] for _i in argsort([self.cost(_s) for _s in {D_}], kind='stable')[:{n_g}]]"):
                                    if n_g != n_s and pmatch(rk, pt) is not None:
                                        ok = True
    return struct_ob("guess-order", qual(c, fn), ok,
                     "initial guesses must be the ascending-cost prefix of the prior draws: " + why,
                     POST, fn.lineno)
