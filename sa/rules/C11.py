"""C11 - GP model-selection scores and their gradients (tier M + F + S).

Decides: LML and its value-and-gradient sibling are R&W (5.8)/(5.9); the LOO value is the
sum of Gaussian log-densities of the data under the leave-one-out predictions the class
itself returns, the value-and-gradient sibling agrees and its gradient is R&W (5.13);
gradients are scattered with the slices the bounds and labels use; the optimisers receive
the advertised box; the multi-start includes the box centre and keeps the minimum cost.
Does not decide: that L-BFGS-B / differential evolution respect bounds or descend (scipy).
"""
from __future__ import annotations
import ast
from fractions import Fraction
from ..model import qual, get_kw
from ..symx import Expander, TupleV, ListV
from ..ncf import M
from .. import ncf, anf
from ..anf import R, Unsupported
from .common import refresh_obligation, dtype_hazard_obligations, struct_ob, formula_ob, guard, last_return, gradient_lists_in_order, U
from .gpm import gp_expander, refs, mob, REL, mean_first_layout, gradient_scatter
from ..report import AnalysisError
from ..term import Resolver, pmatch, find_all, abstract, anf_of
from ..seq import Layouts, UNKNOWN, show

FLOORS = {"component-gradients-exact": 15, "state-refreshed": 1, "float-arithmetic": 1, "lml-form": 2, "lml-gradient-form": 2, "factor-of": 2, "loo-form": 6, "loo-gradient-form": 2,
          "slice-layout": 7, "bounds-passed": 2, "multistart": 1, "selector-wiring": 2, "scratch-owned": 10}


def _scalar_broadcast(fn, grad_lists):
    """`grad[slice] = X` where X resolves to `<expr built from array(grad_list)>.sum()` without an axis."""
    src = {}
    for st in ast.walk(fn):
        if isinstance(st, ast.Assign) and len(st.targets) == 1 and isinstance(st.targets[0], ast.Name):
            src.setdefault(st.targets[0].id, []).append(st.value)
    out = []

    def mentions(e, names, seen=frozenset()):
        for n in ast.walk(e):
            if isinstance(n, ast.Name):
                if n.id in names:
                    return True
                if n.id in src and n.id not in seen and any(mentions(v, names, seen | {n.id}) for v in src[n.id]):
                    return True
        return False
    for st in ast.walk(fn):
        if isinstance(st, ast.Assign) and isinstance(st.targets[0], ast.Subscript) and ast.unparse(st.targets[0].value) == "grad":
            cands = [st.value]
            if isinstance(st.value, ast.Name) and len(src.get(st.value.id, [])) == 1:
                cands = src[st.value.id]
            for v in cands:
                if isinstance(v, ast.Call) and isinstance(v.func, ast.Attribute) and v.func.attr == "sum" and not v.args \
                        and not any(k.arg == "axis" for k in v.keywords) and mentions(v.func.value, set(grad_lists)):
                    out.append(f"`{ast.unparse(st.targets[0])} = {ast.unparse(v)}`: a full reduction over the stacked gradients is a "
                               f"single number, broadcast to every hyper-parameter of the group instead of one partial derivative each")
    return out


def _multistart(prog, c7, ms):
    """Starts lie in the bounds box (centre included), L-BFGS-B runs from every start, the lowest cost wins."""
    L = Layouts(ms, prog, c7.module, c7)
    rz = L.rz
    why = []
    # the list of starts
    runs = rz.calls(lambda f: f == "self.launch_bfgs") + rz.calls(lambda f: f.endswith(".map"))
    starts_names = set()
    for n in ast.walk(ms):
        if isinstance(n, ast.ListComp) and pmatch(n, "[self.launch_bfgs(_x) for _x in _S]") is not None:
            starts_names.add(U(n.generators[0].iter))
        if isinstance(n, ast.Call) and isinstance(n.func, ast.Attribute) and n.func.attr == "map" and len(n.args) == 2 \
                and U(n.args[0]) == "self.launch_bfgs":
            starts_names.add(U(n.args[1]))
    if len(starts_names) != 1:
        why.append(f"L-BFGS-B is not run over one list of starts on every path (lists used: {sorted(starts_names)})")
    else:
        sname = next(iter(starts_names))
        lay = L.state.get(sname)
        lo = "array([k[0] for k in self.hp_bounds])"
        hi = "array([k[1] for k in self.hp_bounds])"
        okl = False
        if lay is not None and lay is not UNKNOWN:
            n_in, n_centre, bad = 0, 0, []
            for part in lay:
                txt_ = part[2] if part[0] == "each" else part[1] if part[0] == "item" else None
                if txt_ is None:
                    bad.append(show((part,)))
                    continue
                t_ = ast.parse(txt_, mode="eval").body
                ab, seen = abstract(t_, [("[array([_k[_i] for _k in self.hp_bounds]) for _i in [0, 1]][0]", "LO"),
                                         ("[array([_k[_i] for _k in self.hp_bounds]) for _i in [0, 1]][1]", "HI"),
                                         ("array([_k[0] for _k in self.hp_bounds])", "LO"), ("array([_k[1] for _k in self.hp_bounds])", "HI"),
                                         ("array(self.hp_bounds).T[0]", "LO"), ("array(self.hp_bounds).T[1]", "HI"),
                                         ("array(self.hp_bounds)[:, 0]", "LO"), ("array(self.hp_bounds)[:, 1]", "HI"),
                                         ("random(size=len(self.hp_bounds))", "RND"), ("random(len(self.hp_bounds))", "RND"),
                                         ("random(size=self.n_hyperpars)", "RND")])
                try:
                    v = anf_of(ab)
                except Unsupported:
                    bad.append(txt_[:120])
                    continue
                LO, HI, RND = R.sym("LO"), R.sym("HI"), R.sym("RND")
                if v.eq(LO + (HI - LO) * RND):
                    n_in += 1
                elif v.eq((LO + HI) / 2):
                    n_centre += 1
                else:
                    bad.append(txt_[:120])
            okl = n_in >= 1 and n_centre >= 1 and not bad
            if not okl:
                why.append(f"starts are not (random points lwr + (upr - lwr) u inside the box) plus the centre of the box: {show(lay)[:300]}")
        else:
            why.append(f"the list of starts `{sname}` has no determined layout")
    rets = rz.return_terms()
    okr = len(rets) == 1 and any(pmatch(rets[0], pt) is not None for pt in
                                 ("sorted(_r, key=lambda z: z[1])[0][0]", "min(_r, key=lambda z: z[1])[0]"))
    if not okr:
        why.append(f"the returned solution `{U(rets[0])[:160] if rets else None}` is not the lowest-cost result")
    else:
        # ... the lowest cost over EVERY run: the ranked list is the list of results itself (one per start), not a selection from it
        bb = next(pmatch(rets[0], pt) for pt in ("sorted(_r, key=lambda z: z[1])[0][0]", "min(_r, key=lambda z: z[1])[0]") if pmatch(rets[0], pt) is not None)
        rt_ = ast.parse(bb["_r"], mode="eval").body
        all_runs = pmatch(rt_, "[self.launch_bfgs(_x) for _x in _S]") is not None or \
            (isinstance(rt_, ast.Call) and isinstance(rt_.func, ast.Attribute) and rt_.func.attr == "map" and len(rt_.args) == 2
             and U(rt_.args[0]) == "self.launch_bfgs") or \
            (isinstance(rt_, ast.IfExp) and all(
                pmatch(a_, "[self.launch_bfgs(_x) for _x in _S]") is not None or
                (isinstance(a_, ast.Call) and isinstance(a_.func, ast.Attribute) and a_.func.attr == "map" and U(a_.args[0]) == "self.launch_bfgs")
                for a_ in (rt_.body, rt_.orelse)))
        if not all_runs:
            if any(isinstance(x, (ast.ListComp, ast.GeneratorExp)) and x.generators and x.generators[0].ifs for x in ast.walk(rt_)) \
                    or any(isinstance(x, ast.Call) and U(x.func) == "filter" for x in ast.walk(rt_)):
                why.append(f"the solution is chosen from a selection of the runs, `{U(rt_)[:140]}`: a run left out (the one from the centre of the "
                           f"box, say) may be the lowest-cost one")
            else:
                raise AnalysisError(f"multistart: the ranked list `{U(rt_)[:140]}` is not recognised as the list of all runs - not decided")
    # each run hands back what the optimiser returned, cost included (the ranking reads element 1 of it)
    lc_, lb_ = prog.find_method(prog.cls("GpRegressor"), "launch_bfgs")
    if lb_ is not None:
        rl_ = Resolver(lb_, prog, lc_.module, lc_).return_terms()
        if not (len(rl_) == 1 and isinstance(rl_[0], ast.Call) and U(rl_[0].func).split(".")[-1] == "fmin_l_bfgs_b"):
            t0_ = rl_[0] if rl_ else None
            ok_t = isinstance(t0_, ast.Tuple) and len(t0_.elts) >= 2 and pmatch(t0_.elts[1], "_c[1]") is not None and \
                "fmin_l_bfgs_b" in U(t0_.elts[1]) and pmatch(t0_.elts[0], "_c[0]") is not None
            if not ok_t:
                why.append(f"launch_bfgs returns `{U(t0_)[:120] if t0_ is not None else None}`, not the optimiser's own (solution, cost, info): the "
                           f"ranking by element 1 then ranks something else than the cost that was minimised")
    return struct_ob("multistart", qual(c7, ms), not why,
                     "the multi-start must include the centre of the bounds box, draw the other starts inside the box, run "
                     "L-BFGS-B from every start and return the lowest-cost solution: " + "; ".join(why), REL, ms.lineno)


def loo_expander(prog, ci):
    """Scalar expander for the LOO functions: matrix products are opaque atoms (matmul(A, b))."""
    ex = Expander(prog, ci.module, ci)
    ex.matmul_as_sum = False
    ex.opaque_self_attrs = {"y", "sig", "alpha", "L", "n_points", "cov", "mean", "cov_slice", "mean_slice"}
    ex.array_pred = lambda a: True
    ex.n_atom = R.sym("n")

    def hook(e, node, env):
        f = U(node.func)
        if f in ("solve_triangular", "cholesky", "self.cov.build_covariance", "self.mean.build_mean"):
            return R.sym(f"<{f}>")
        if f == "self.cov.covariance_and_gradients":
            return TupleV([R.sym("Kd"), ListV([R.sym("dK")])])
        if f == "self.mean.mean_and_gradients":
            return TupleV([R.sym("m"), ListV([R.sym("dm")])])
        if f in ("diag", "diagonal") and len(node.args) == 1:
            return anf.fn_("diag", e.need_r(e.eval(node.args[0], env)))
        if f == "eye":
            return R.sym("I")
        if f == "zeros":
            return R.const(0)
        return NotImplemented
    ex.call_hook = hook
    ex.on_for = lambda node, env: "once"
    ex.on_if = lambda node, env: "skip"

    orig_binop = ex.binop

    def binop(op, a, b, node=None):
        if isinstance(op, ast.MatMult):
            return anf.fn_("matmul", ex.need_r(a), ex.need_r(b))
        return orig_binop(op, a, b, node)
    ex.binop = binop
    return ex


def run(prog, tier):
    # the score gradients scatter the component derivatives (d K / d theta_k, d mean / d theta_k) into the hyper-parameter vector in
    # list order: they are the true gradient only if each component hands its derivatives over exact and in parameter order -
    # the clause C11 shares with C10, decided there
    from .common import borrow
    shared = borrow(prog, tier, "C10", {"mean-gradient", "gradient-is-derivative", "composition-order", "changepoint-instance", "changepoint-siblings",
                                        "composite-structure"}, "component-gradients-exact",
                    "the marginal-likelihood and LOO gradients are assembled from the kernels' and means' own gradient lists")
    # the LOO formulas and both gradients read the stored alpha = K^-1 (y - mu) and the factor L as given: that they ARE that is the
    # closed-form clause of C02 (its predictors use the same two attributes), decided there
    shared += borrow(prog, tier, "C02", {"posterior-closed-form", "factor-of", "triangular-solves"}, "stored-solve-is-exact",
                     "alpha and L, which the scores read from the object, must be K^-1 (y - mu) and the Cholesky factor of K + S")
    obs, info = [], []
    obs.extend(shared)
    problems = []

    # ---------------------------------------------------------------- every evaluation starts from freshly built matrices
    from .common import scratch_owned_obligations
    so = scratch_owned_obligations(prog, "scratch-owned", [prog.cls("GpRegressor")])
    from .gpm import routing_obligations
    so = so + [o for o in routing_obligations(prog, "GpRegressor", "hyperparameter-routing", REL) if "likelihood" in o.construct]
    obs.extend(so)
    if any(not o.ok for o in so):
        return obs, {}, {"explanation": "a kept matrix is updated in place by a score evaluation; formula rules not evaluated"}

    # ---------------------------------------------------------------- gradient lists are walked in order
    for mname in ("marginal_likelihood_gradient", "loo_likelihood_gradient"):
        c0, fn0 = prog.method("GpRegressor", mname)
        pr = gradient_lists_in_order(fn0, {"grad_K", "grad_mu", "cov_gradients", "mean_gradients"})
        obs.append(struct_ob("slice-layout", qual(c0, fn0) + "[order]", not pr, "; ".join(pr), REL, fn0.lineno))
        if pr:
            return obs, {}, {"explanation": "gradient list order violated; formula rules not evaluated"}
        # one partial derivative per hyper-parameter: no full reduction over the stacked gradient list
        sb = _scalar_broadcast(fn0, ("grad_mu", "grad_K"))
        obs.append(struct_ob("slice-layout", qual(c0, fn0) + "[scatter-rank]", not sb, "; ".join(sb), REL, fn0.lineno))
        if sb:
            return obs, {}, {"explanation": "gradient scatter collapses the parameter axis; formula rules not evaluated"}

    # ---------------------------------------------------------------- LML value (two siblings)
    for mname in ("marginal_likelihood", "marginal_likelihood_gradient"):
        c, fn = prog.method("GpRegressor", mname)
        ci, ex = gp_expander(prog)
        env = {fn.args.args[1].arg: M.atom("theta", 1)}
        res = guard(lambda: ex.run(fn.body, env))
        problems += ex.problems
        r = refs()
        val = res.items[0] if isinstance(res, TupleV) else res
        resid = r["y"] - r["m"]
        want = resid.matmul(r["Kinv"].matmul(resid)).scale(Fraction(-1, 2)) - r["hld"]
        obs.append(mob("lml-form", qual(c, fn), val, want, fn.lineno,
                       "log marginal likelihood = -1/2 (y-mu)^T K^-1 (y-mu) - sum log diag L   (R&W 5.8, constant dropped)"))
        okK = "L" in ex.chol and ex.chol["L"].eq(r["Kxx"])
        obs.append(struct_ob("factor-of", qual(c, fn), okK,
                             f"L must be the Cholesky factor of build_covariance(theta) + sig; it factorises {ex.chol.get('L')}",
                             REL, fn.lineno, tier="M"))
        if mname == "marginal_likelihood_gradient":
            gm, gc = env.get("grad[self.mean_slice]"), env.get("grad[self.cov_slice]")
            if not (isinstance(gm, ListV) and isinstance(gc, ListV) and len(gm.items) == 1 and len(gc.items) == 1):
                raise AnalysisError("anchor vanished: gradient scatter in marginal_likelihood_gradient")
            alpha = r["alpha"]
            dK, dm = M.atom("dK", 2, True), M.atom("dm", 1)
            outer = M(ncf._mul(alpha.terms, ncf._row(alpha.terms)), 2)
            want_c = ncf.trace((outer - r["Kinv"]).matmul(dK)).scale(Fraction(1, 2))
            obs.append(mob("lml-gradient-form", qual(c, fn) + "[mean-part]", gm.items[0], alpha.matmul(dm), fn.lineno,
                           "d LML / d(mean hyper-parameter) = alpha^T dm"))
            obs.append(mob("lml-gradient-form", qual(c, fn) + "[covariance-part]", gc.items[0], want_c, fn.lineno,
                           "d LML / d(kernel hyper-parameter) = 1/2 tr((alpha alpha^T - K^-1) dK)   (R&W 5.9)"))
    if problems:
        obs.append(struct_ob("factor-of", "inference.gp.regression.GpRegressor[triangular-solves]", False,
                             "; ".join(sorted(set(problems))), REL, 0, tier="M"))

    # ---------------------------------------------------------------- the matrix whose diagonal / products the LOO formulas use IS K^-1
    for mname in ("loo_predictions", "loo_likelihood", "loo_likelihood_gradient"):
        c_, fn_ = prog.method("GpRegressor", mname)
        dg = [n_ for n_ in ast.walk(fn_) if isinstance(n_, ast.Call) and U(n_.func) in ("diag", "diagonal") and n_.args and isinstance(n_.args[0], ast.Name)]
        names_ = {n_.args[0].id for n_ in dg}
        if len(names_) != 1:
            raise AnalysisError(f"anchor vanished: diag(<inverse covariance>) in GpRegressor.{mname}")
        ikn = next(iter(names_))
        stop = None
        for st_ in ast.walk(fn_):
            if isinstance(st_, ast.stmt) and not isinstance(st_, (ast.FunctionDef, ast.Try, ast.If, ast.For, ast.While, ast.With)) \
                    and any(x is dg[0] for x in ast.walk(st_)):
                stop = st_
                break
        ci_, ex_ = gp_expander(prog)
        env_ = {a.arg: M.atom("theta", 1) for a in fn_.args.args[1:2]}
        guard(lambda: ex_.run_until(fn_.body, env_, stop))
        got_ = env_.get(ikn)
        r_ = refs()
        obs.append(mob("loo-form", qual(c_, fn_) + "[inverse]", got_, r_["Kinv"], fn_.lineno,
                       "the matrix whose diagonal gives the leave-one-out variances = K^-1 = L^-T L^-1"))
        problems += ex_.problems

    # ---------------------------------------------------------------- LOO (engine C with opaque matrix products)
    anf.reset()
    ci = prog.cls("GpRegressor")
    c, lp = prog.method("GpRegressor", "loo_predictions")
    ex = loo_expander(prog, ci)
    pred = guard(lambda: ex.run(lp.body, {}))
    if not (isinstance(pred, TupleV) and len(pred.items) == 2):
        raise AnalysisError("loo_predictions does not return (mu, sigma)")
    mu_loo, sig_loo = pred.items
    # name the two primitive vectors:  a = K^-1 (y - m)  and  v = 1 / diag(K^-1)
    iK = None
    for a in mu_loo.all_atoms():
        if a[0] == "fn" and a[1] == "diag":
            iK = anf.REG.get(a[2])[0]
    if iK is None:
        raise AnalysisError("anchor vanished: diag(K^-1) in loo_predictions")
    var = R.const(1).div(anf.fn_("diag", iK))
    y = R.sym("self.y")
    alpha_s = R.sym("self.alpha")
    obs.append(formula_ob("loo-form", qual(c, lp) + "[mean]", mu_loo, y - alpha_s * var, REL, lp.lineno,
                          what="leave-one-out mean = y - alpha / diag(K^-1)   (R&W 5.12)"))
    obs.append(formula_ob("loo-form", qual(c, lp) + "[sigma]", sig_loo * sig_loo, var, REL, lp.lineno,
                          what="leave-one-out variance = 1 / diag(K^-1)   (R&W 5.12)"))
    # the score: sum of Gaussian log-densities of y under those predictions (constant dropped)
    vals = {}
    for mname in ("loo_likelihood", "loo_likelihood_gradient"):
        c2, fn = prog.method("GpRegressor", mname)
        ex = loo_expander(prog, ci)
        env = {fn.args.args[1].arg: R.sym("theta")}
        res = guard(lambda: ex.run(fn.body, env))
        val = res.items[0] if isinstance(res, TupleV) else res
        # in these functions alpha is the local  iK @ (y - mu): rename to the canonical atom
        a_loc = [a for a in val.all_atoms() if a[0] == "fn" and a[1] == "matmul"
                 and any(b == ("sym", "self.y") for b in anf.REG.get(a[2])[1].all_atoms())]
        ik_loc = None
        for a in val.all_atoms():
            if a[0] == "fn" and a[1] == "diag":
                ik_loc = anf.REG.get(a[2])[0]
        if len(a_loc) != 1 or ik_loc is None:
            raise AnalysisError(f"{mname}: cannot identify alpha = iK @ (y - mu) and diag(iK)")
        margs = anf.REG.get(a_loc[0][2])
        ok_alpha = margs[0].eq(ik_loc)
        A = R.atom(a_loc[0])
        v_loc = R.const(1).div(anf.fn_("diag", ik_loc))
        resid = A * v_loc                           # y - mu_loo = alpha * var
        want = anf.sum_(-Fraction(1, 2) * anf.log_(v_loc) - resid * resid / (2 * v_loc), lambda a: True, R.sym("n"))
        o = formula_ob("loo-form", qual(c2, fn), val, want, REL, fn.lineno,
                       what="LOO score = sum_i log N(y_i | mu_loo_i, var_loo_i) (constant dropped), with the predictions' own formulas")
        if o.ok and not ok_alpha:
            o = struct_ob("loo-form", qual(c2, fn), False, "alpha is not K^-1 (y - mu) with the same K^-1 whose diagonal is used", REL, fn.lineno)
        obs.append(o)
        vals[mname] = (val, env, A, v_loc, ik_loc)
    # gradient (R&W 5.13)
    val, env, A, v_loc, ik_loc = vals["loo_likelihood_gradient"]
    c2, fn = prog.method("GpRegressor", "loo_likelihood_gradient")
    src = {}
    for st in ast.walk(fn):
        if isinstance(st, ast.Assign) and len(st.targets) == 1:
            src.setdefault(U(st.targets[0]), []).append(st)
    ex = loo_expander(prog, ci)
    env = {fn.args.args[1].arg: R.sym("theta")}
    # the per-parameter contribution of each gradient list, whether it is accumulated by a loop or by a comprehension
    rzl = Resolver(fn, prog, c2.module, c2)
    th_ = fn.args.args[1].arg
    lists = {"cov": f"self.cov.covariance_and_gradients({th_}[self.cov_slice])[1]",
             "mean": f"self.mean.mean_and_gradients({th_}[self.mean_slice])[1]"}
    sites = {}
    for n_ in ast.walk(fn):
        it_, tgt_, kind_ = None, None, None
        if isinstance(n_, ast.For):
            it_, tgt_, kind_ = n_.iter, n_.target, "loop"
        elif isinstance(n_, (ast.ListComp, ast.GeneratorExp)) and len(n_.generators) == 1:
            it_, tgt_, kind_ = n_.generators[0].iter, n_.generators[0].target, "comp"
        if it_ is None or not isinstance(tgt_, ast.Name):
            continue
        st_ = n_ if kind_ == "loop" else rzl.stmt_of(n_)
        tt = str(U(rzl.term(it_, st_)))
        for ref_, text_ in lists.items():
            if tt == text_:
                sites.setdefault(ref_, []).append((kind_, n_, st_, tgt_.id))
    if any(len(sites.get(r_, [])) != 1 for r_ in lists):
        raise AnalysisError("anchor vanished: one loop / comprehension over each gradient list in loo_likelihood_gradient "
                            f"({ {k: len(v) for k, v in sites.items()} })")
    first = min((sites[r_][0][2] for r_ in lists), key=lambda s_: s_.lineno)
    guard(lambda: ex.run_until(fn.body, env, first))
    for ref, elem, what in (("cov", "dK", "covariance"), ("mean", "dmu", "mean")):
        kind_, node_, st_, var_ = sites[ref][0]
        lp_ = st_
        e2 = dict(env)
        e2[var_] = R.sym(elem)
        ex2 = loo_expander(prog, ci)
        if kind_ == "loop":
            guard(lambda: ex2.exec_block([s for s in node_.body if isinstance(s, ast.Assign)], e2))
            apps = [s.value.args[0] for s in node_.body if isinstance(s, ast.Expr) and isinstance(s.value, ast.Call)
                    and isinstance(s.value.func, ast.Attribute) and s.value.func.attr == "append" and s.value.args]
            if len(apps) != 1:
                raise AnalysisError(f"anchor vanished: single appended contribution in the {what} gradient loop")
            g = guard(lambda: ex2.eval(apps[0], e2))
        else:
            g = guard(lambda: ex2.eval(node_.elt, e2))
        Z = anf.fn_("matmul", ik_loc, R.sym(elem))
        if ref == "cov":
            Za = anf.fn_("matmul", Z, A)
            ZK = anf.fn_("diag", anf.fn_("matmul", Z, ik_loc))
            want = anf.sum_(A * v_loc * Za - Fraction(1, 2) * (1 + A * A * v_loc) * v_loc * ZK, lambda a: True, R.sym("n"))
            wtxt = "sum_i [ alpha_i (Z alpha)_i - 1/2 (1 + alpha_i^2 / K^-1_ii) (Z K^-1)_ii ] / K^-1_ii,  Z = K^-1 dK   (R&W 5.13)"
        else:
            want = anf.sum_(A * v_loc * Z, lambda a: True, R.sym("n"))
            wtxt = "sum_i alpha_i (K^-1 dm)_i / K^-1_ii"
        obs.append(formula_ob("loo-gradient-form", qual(c2, fn) + f"[{what}-part]", g, want, REL, lp_.lineno, what=wtxt))

    # ---------------------------------------------------------------- slice layout
    for mname in ("loo_likelihood_gradient", "marginal_likelihood_gradient"):
        c3, fn, why_ = gradient_scatter(prog, "GpRegressor", mname)
        obs.append(struct_ob("slice-layout", qual(c3, fn), not why_,
                             "mean / covariance gradients must be computed from and scattered into their own slices: " + "; ".join(why_),
                             REL, fn.lineno))
    c3, init, why_ = mean_first_layout(prog, "GpRegressor", "__init__", "self.hp_bounds")
    obs.append(struct_ob("slice-layout", qual(c3, init), not why_,
                         "bounds, labels and slices must all be mean-first then covariance: " + "; ".join(why_), REL, init.lineno))
    # selector wiring
    # per attribute: (value when cross_val, value otherwise), from `if cross_val:` arms or from conditional expressions
    a, b = {}, {}

    def wire(stmts, truth):
        for s_ in stmts:
            if isinstance(s_, ast.If) and U(s_.test) in ("cross_val", "not cross_val") and truth is None:
                pos = U(s_.test) == "cross_val"
                wire(s_.body, pos)
                wire(s_.orelse, not pos)
            elif isinstance(s_, ast.Assign) and len(s_.targets) == 1 and U(s_.targets[0]) in ("self.model_selector", "self.model_selector_gradient"):
                t_, v_ = str(U(s_.targets[0])), s_.value
                if truth is None and isinstance(v_, ast.IfExp) and U(v_.test) in ("cross_val", "not cross_val"):
                    pos = U(v_.test) == "cross_val"
                    a.setdefault(t_, []).append(U(v_.body if pos else v_.orelse))
                    b.setdefault(t_, []).append(U(v_.orelse if pos else v_.body))
                elif truth is None:
                    a.setdefault(t_, []).append(U(v_))
                    b.setdefault(t_, []).append(U(v_))
                else:
                    (a if truth else b).setdefault(t_, []).append(U(v_))
    wire(init.body, None)
    ok = (a == {"self.model_selector": ["self.loo_likelihood"], "self.model_selector_gradient": ["self.loo_likelihood_gradient"]}
          and b == {"self.model_selector": ["self.marginal_likelihood"], "self.model_selector_gradient": ["self.marginal_likelihood_gradient"]})
    obs.append(struct_ob("selector-wiring", qual(c3, init), ok,
                         "the selector and its value-and-gradient form must be the same criterion on both arms of cross_val", REL, init.lineno))
    c4, bc = prog.method("GpRegressor", "bfgs_cost_func")
    rb = Resolver(bc, prog, c4.module, c4)
    tp = bc.args.args[1].arg
    rets = rb.return_terms()
    ok = len(rets) == 1 and pmatch(rets[0], f"(-self.model_selector_gradient({tp})[0], -self.model_selector_gradient({tp})[1])") is not None
    obs.append(struct_ob("selector-wiring", qual(c4, bc), ok,
                         f"the BFGS cost must be the negated selector and negated gradient: `{U(rets[0]) if rets else None}`", REL, bc.lineno))

    # ---------------------------------------------------------------- bounds passed / multistart
    c5, de = prog.method("GpRegressor", "differential_evo")
    rd = Resolver(de, prog, c5.module, c5)
    calls = rd.calls(lambda f: f == "differential_evolution")
    ok = False
    if len(calls) == 1:
        fa, ba = rd.arg(calls[0][0], 0, "func"), rd.arg(calls[0][0], 1, "bounds")
        rets = rd.return_terms()
        ok = (fa is not None and pmatch(fa, "lambda z: -self.model_selector(z)") is not None and ba is not None and U(ba) == "self.hp_bounds"
              and len(rets) == 1 and pmatch(rets[0], "differential_evolution(*_).x") is not None)
    obs.append(struct_ob("bounds-passed", qual(c5, de), ok,
                         f"differential evolution must minimise -selector over self.hp_bounds and return its solution: "
                         f"`{U(calls[0][0]) if calls else None}`", REL, de.lineno))
    c6, lb = prog.method("GpRegressor", "launch_bfgs")
    rl = Resolver(lb, prog, c6.module, c6)
    calls = rl.calls(lambda f: f == "fmin_l_bfgs_b")
    ok = False
    if len(calls) == 1:
        fa, ba, ga = rl.arg(calls[0][0], 0, "func"), rl.arg(calls[0][0], None, "bounds"), rl.arg(calls[0][0], None, "approx_grad")
        ok = (fa is not None and U(fa) == "self.bfgs_cost_func" and ba is not None and U(ba) == "self.hp_bounds"
              and (ga is None or U(ga) in ("False", "0")))        # absent = scipy's default (False): func returns (value, gradient)
    obs.append(struct_ob("bounds-passed", qual(c6, lb), ok,
                         f"L-BFGS-B must minimise bfgs_cost_func with its analytic gradient within self.hp_bounds: "
                         f"`{U(calls[0][0]) if calls else None}`", REL, lb.lineno))
    c7, ms = prog.method("GpRegressor", "multistart_bfgs")
    obs.append(_multistart(prog, c7, ms))

    obs.extend(dtype_hazard_obligations(prog, "float-arithmetic", ['inference/gp/regression.py']))
    from .common import call_order_obligations
    obs.extend(call_order_obligations(prog, "arguments-in-order", ['inference/gp/regression.py']))
    from .common import identity_memo_obligations
    obs.extend(identity_memo_obligations(prog, "result-keyed-on-values", ['inference/gp/regression.py']))

    obs.append(refresh_obligation(prog, "state-refreshed", "GpRegressor", "set_hyperparameters"))

    meta = {
        "explanation": "Matrix normal form for the marginal likelihood, its value-and-gradient sibling and both gradient parts "
                       "(R&W 5.8/5.9) with L the Cholesky factor of build_covariance+sig; scalar normal form with opaque matrix "
                       "products for the leave-one-out family: the score must equal the sum of Gaussian log-densities of y under the "
                       "leave-one-out predictions that loo_predictions itself returns, and the gradient parts R&W (5.13); slices, "
                       "selector wiring, optimiser bounds and the multi-start are checked structurally.",
        "assumptions": ["numpy/scipy cholesky, solve_triangular; scipy optimisers honour the bounds they are given"],
        "info": info,
    }
    return obs, FLOORS, meta
