"""Shared matrix-expander set-up for GpRegressor (C02, C11, C16)."""
from __future__ import annotations
import ast
from ..mexp import MExpander
from ..symx import TupleV, ListV
from ..ncf import M
from .. import ncf
from .common import U
from ..report import Ob

REL = "inference/gp/regression.py"
ATOMS = {"self.x": ("X", 2, False), "self.y": ("y", 1, False), "self.sig": ("Sig", 2, True)}


def mob(rule, construct, got, want, line, what, rel=REL):
    ok = isinstance(got, M) and isinstance(want, M) and got.eq(want)
    msg = "" if ok else f"{what}: code has  {str(got)[:400]}  but the closed form is  {str(want)[:400]}"
    return Ob(rule, construct, ok, msg=msg, file=rel, line=line, tier="M",
              slots={"what": what, "code_form": str(got)[:400], "reference_form": str(want)[:400]})


def gp_expander(prog, scalar_mean=True):
    ci = prog.cls("GpRegressor")
    ncf.SYMMETRIC.clear()
    ncf.SYMMETRIC.update({"Sig", "Kd", "dK", "Kqq"})
    ex = MExpander(prog, ci.module, ci)
    ex.atoms = dict(ATOMS)
    ex.ctor_methods = ("__init__", "set_hyperparameters")
    state = {"q": []}      # query arguments of the cross-covariance calls seen so far

    def hook(e, node, env):
        f = U(node.func)
        if f == "self.cov.build_covariance":
            return M.atom("Kd", 2, True)
        if f == "self.cov.covariance_and_gradients":
            return TupleV([M.atom("Kd", 2, True), ListV([M.atom("dK", 2, True)])])
        if f == "self.mean.build_mean":
            return M.atom("m", 1)
        if f == "self.mean.mean_and_gradients":
            return TupleV([M.atom("m", 1), ListV([M.atom("dm", 1)])])
        if f == "self.cov" and len(node.args) == 3:
            a, b = U(node.args[0]), U(node.args[1])
            if b == "self.x":
                # the query argument of the cross-covariance names the point(s) this prediction is for
                state['q'].append(a)
                return M.atom("Kqx", 2)
            if a == b:
                # prior (co)variance: must be evaluated at the very query argument the cross-covariance uses
                if state['q'] and a == state['q'][-1]:
                    return M.atom("Kqq", 2, True)
                ncf.SYMMETRIC.add(f"Kqq<{a}>")
                return M.atom(f"Kqq<{a}>", 2, True)
            return M.atom(f"K({a},{b})", 2)
        if f == "self.mean" and len(node.args) == 2:
            a = U(node.args[0])
            if state['q'] and a != state['q'][-1]:
                return M.atom(f"mq<{a}>", 0 if scalar_mean else 1)
            return M.atom("mq", 0 if scalar_mean else 1)
        if f == "array" and node.args and isinstance(node.args[0], ast.ListComp) \
                and U(node.args[0].elt).startswith("self.mean("):
            return M.atom("mq", 1)
        if f == "self.process_points":
            return M.atom("P", 2)
        if f == "self.cov.gradient_terms":
            return TupleV([M.atom("At", 2), M.atom("Rv", 1)])
        return NotImplemented
    ex.call_atoms = hook
    return ci, ex


def refs():
    """Reference atoms and words."""
    y, m = M.atom("y", 1), M.atom("m", 1)
    Linv, LinvT = M.atom("Linv", 2), M.atom("LinvT", 2)
    Kinv = LinvT.matmul(Linv)
    alpha = Kinv.matmul(y - m)
    Kqx, Kqq = M.atom("Kqx", 2), M.atom("Kqq", 2, True)
    Kxx = M.atom("Kd", 2, True) + M.atom("Sig", 2, True)
    hld = M.atom(f"hld({M.atom('L', 2)})", 0)
    return dict(y=y, m=m, Linv=Linv, LinvT=LinvT, Kinv=Kinv, alpha=alpha, Kqx=Kqx, Kqq=Kqq, Kxx=Kxx, hld=hld)
