"""Shared matrix-expander set-up for GpRegressor (C02, C11, C16)."""
from __future__ import annotations
import ast
import copy
from ..mexp import MExpander
from ..symx import TupleV, ListV
from ..ncf import M
from .. import ncf
from .common import U
from ..report import Ob

REL = "inference/gp/regression.py"
ATOMS = {"self.x": ("X", 2, False), "self.y": ("y", 1, False), "self.sig": ("Sig", 2, True)}


def mob(rule, construct, got, want, line, what, rel=REL):
    ok = isinstance(got, M) and isinstance(want, M) and got.eq(want)
    msg = "" if ok else f"{what}: code has  {str(got)[:400]}  but the closed form is  {str(want)[:400]}"
    return Ob(rule, construct, ok, msg=msg, file=rel, line=line, tier="M",
              slots={"what": what, "code_form": str(got)[:400], "reference_form": str(want)[:400]})


def gp_expander(prog, scalar_mean=True):
    ci = prog.cls("GpRegressor")
    ncf.SYMMETRIC.clear()
    ncf.SYMMETRIC.update({"Sig", "Kd", "dK", "Kqq"})
    ex = MExpander(prog, ci.module, ci)
    ex.atoms = dict(ATOMS)
    ex.ctor_methods = ("__init__", "set_hyperparameters")
    state = {"q": []}      # query arguments of the cross-covariance calls seen so far

    def hook(e, node, env):
        f = U(node.func)
        if f == "self.cov.build_covariance":
            return M.atom("Kd", 2, True)
        if f == "self.cov.covariance_and_gradients":
            return TupleV([M.atom("Kd", 2, True), ListV([M.atom("dK", 2, True)])])
        if f == "self.mean.build_mean":
            return M.atom("m", 1)
        if f == "self.mean.mean_and_gradients":
            return TupleV([M.atom("m", 1), ListV([M.atom("dm", 1)])])
        # predictions are made with the hyper-parameters the factorisation was built with: a kernel / mean evaluated with anything
        # else is another function (an atom of its own, which no closed form contains)
        if f in ("self.cov", "self.cov.gradient_terms") and len(node.args) == 3 and U(node.args[2]) != "self.cov_hyperpars":
            return M.atom(f"K<{U(node.args[0])},{U(node.args[1])};{U(node.args[2])}>", 2)
        if f in ("self.mean", "self.mean.gradient") and len(node.args) == 2 and U(node.args[1]) != "self.mean_hyperpars":
            return M.atom(f"m<{U(node.args[0])};{U(node.args[1])}>", 1)
        if f == "self.cov" and len(node.args) == 3:
            a, b = U(node.args[0]), U(node.args[1])
            if b == "self.x":
                # the query argument of the cross-covariance names the point(s) this prediction is for
                state['q'].append(a)
                return M.atom("Kqx", 2)
            if a == b:
                # prior (co)variance: must be evaluated at the very query argument the cross-covariance uses
                if state['q'] and a == state['q'][-1]:
                    return M.atom("Kqq", 2, True)
                ncf.SYMMETRIC.add(f"Kqq<{a}>")
                return M.atom(f"Kqq<{a}>", 2, True)
            return M.atom(f"K({a},{b})", 2)
        if f == "self.mean" and len(node.args) == 2:
            a = U(node.args[0])
            if state['q'] and a != state['q'][-1]:
                return M.atom(f"mq<{a}>", 0 if scalar_mean else 1)
            return M.atom("mq", 0 if scalar_mean else 1)
        if f == "array" and node.args and isinstance(node.args[0], ast.ListComp) \
                and U(node.args[0].elt).startswith("self.mean("):
            lc = node.args[0]
            g = lc.generators[0]
            good = (len(lc.generators) == 1 and not g.ifs and isinstance(g.target, ast.Name) and isinstance(lc.elt, ast.Call)
                    and [U(a) for a in lc.elt.args] == [g.target.id, "self.mean_hyperpars"] and not lc.elt.keywords
                    and (not state['q'] or U(g.iter) == state['q'][-1]))
            # the prior mean at every query point, with the stored mean hyper-parameters; anything else is another vector
            return M.atom("mq", 1) if good else M.atom(f"m<{U(lc)[:60]}>", 1)
        if f == "self.process_points":
            return M.atom("P", 2)
        if f == "self.cov.gradient_terms":
            return TupleV([M.atom("At", 2), M.atom("Rv", 1)])
        return NotImplemented
    ex.call_atoms = hook
    return ci, ex


def refs():
    """Reference atoms and words."""
    y, m = M.atom("y", 1), M.atom("m", 1)
    Linv, LinvT = M.atom("Linv", 2), M.atom("LinvT", 2)
    Kinv = LinvT.matmul(Linv)
    alpha = Kinv.matmul(y - m)
    Kqx, Kqq = M.atom("Kqx", 2), M.atom("Kqq", 2, True)
    Kxx = M.atom("Kd", 2, True) + M.atom("Sig", 2, True)
    hld = M.atom(f"hld({M.atom('L', 2)})", 0)
    return dict(y=y, m=m, Linv=Linv, LinvT=LinvT, Kinv=Kinv, alpha=alpha, Kqx=Kqx, Kqq=Kqq, Kxx=Kxx, hld=hld)


# ---------------------------------------------------------------------------- hyper-parameter layout (C11, C17)
def mean_first_layout(prog, cname, bounds_fn_name, bounds_key):
    """Problems with the layout of the hyper-parameter vector of a GP class: slices, labels and bounds must all put the
    mean function's parameters first and the covariance function's after them.  Decided on resolved terms / list layouts."""
    from ..term import Resolver, pmatch, anf_of
    from ..seq import Layouts, UNKNOWN, show
    from ..anf import R, Unsupported
    ci, init = prog.method(cname, "__init__")
    rz = Resolver(init, prog, ci.module, ci, inline_self=False)
    L = Layouts(init, prog, ci.module, ci)
    why = []
    attr = {}
    for st in ast.walk(init):
        if isinstance(st, ast.Assign) and len(st.targets) == 1 and isinstance(st.targets[0], ast.Attribute) and U(st.targets[0].value) == "self":
            attr.setdefault(st.targets[0].attr, []).append(rz.term(st.value, st))

    def one(name):
        return attr[name][0] if len(attr.get(name, [])) == 1 else None
    ms, cs, nh = one("mean_slice"), one("cov_slice"), one("n_hyperpars")
    if ms is None or pmatch(ms, "slice(0, self.mean.n_params)") is None:
        why.append(f"mean_slice is `{U(ms) if ms is not None else None}`, not slice(0, mean.n_params)")
    # the covariance slice starts where the mean slice stops: as a value (self.mean_slice.stop is the stop of slice(0, n_mean))
    if cs is not None and ms is not None:
        class _Stop(ast.NodeTransformer):
            def visit_Attribute(self, n):
                self.generic_visit(n)
                if n.attr in ("stop", "start") and ast.unparse(n.value) == "self.mean_slice" and isinstance(ms, ast.Call) and len(ms.args) == 2:
                    return ms.args[1] if n.attr == "stop" else ms.args[0]
                return n
        cs = ast.fix_missing_locations(_Stop().visit(copy.deepcopy(cs)))
    okc = cs is not None and (pmatch(cs, "slice(self.mean.n_params, self.n_hyperpars)") is not None
                              or pmatch(cs, "slice(self.mean.n_params, self.mean.n_params + self.cov.n_params)") is not None)
    if not okc:
        why.append(f"cov_slice is `{U(cs) if cs is not None else None}`, not slice(mean.n_params, n_hyperpars)")
    # n_hyperpars = number of mean + covariance parameters (directly, or as the length of the concatenated bounds)
    okn = False
    if nh is not None:
        if pmatch(nh, "len(self.hp_bounds)") is not None:
            okn = L.state.get("self.hp_bounds") == (("splice", "self.mean.bounds"), ("splice", "self.cov.bounds"))
        else:
            try:
                from ..term import abstract
                ab, _ = abstract(nh, [("self.mean.n_params", "NM"), ("self.cov.n_params", "NC")])
                okn = anf_of(ab).eq(R.sym("NM") + R.sym("NC"))
            except Unsupported:
                okn = False
    if not okn:
        why.append(f"n_hyperpars is `{U(nh) if nh is not None else None}`, not the number of mean plus covariance parameters")
    lab = L.state.get("self.hyperpar_labels")
    if lab != (("splice", "self.mean.hyperpar_labels"), ("splice", "self.cov.hyperpar_labels")):
        why.append(f"labels are {show(lab)}, not the mean's labels followed by the covariance's")
    cb, bf = prog.method(cname, bounds_fn_name)
    Lb = L if bf is init else Layouts(bf, prog, cb.module, cb)
    b = Lb.state.get(bounds_key)
    if b is None:
        # the bounds handed to the optimiser, wherever they are spelled
        for n in ast.walk(bf):
            if isinstance(n, ast.Call):
                for kw in n.keywords:
                    if kw.arg == "bounds":
                        b = Lb.layout_of(kw.value, Lb.rz.stmt_of(n))
    if b != (("splice", "self.mean.bounds"), ("splice", "self.cov.bounds")):
        why.append(f"bounds `{bounds_key}` in {bounds_fn_name} are {show(b)}, not the mean's bounds followed by the covariance's")
    return ci, init, why


def gradient_scatter(prog, cname, mname, out_name="grad"):
    """Problems with `grad[self.cov_slice] = ...` / `grad[self.mean_slice] = ...`: each slice must receive values computed
    from the gradient list of its own component, itself evaluated on that component's slice of theta."""
    from ..term import Resolver
    from ..seq import Layouts, UNKNOWN
    ci, fn = prog.method(cname, mname)
    L = Layouts(fn, prog, ci.module, ci)
    rz = L.rz
    th = fn.args.args[1].arg
    tags = {"cov": f"self.cov.covariance_and_gradients({th}[self.cov_slice])[1]",
            "mean": f"self.mean.mean_and_gradients({th}[self.mean_slice])[1]"}
    why = []
    seen = set()
    for st in ast.walk(fn):
        if isinstance(st, ast.Assign) and isinstance(st.targets[0], ast.Subscript) and U(st.targets[0].value) == out_name:
            sl = U(st.targets[0].slice)
            which = "cov" if sl == "self.cov_slice" else "mean" if sl == "self.mean_slice" else None
            if which is None:
                why.append(f"`{U(st.targets[0])}` is not one of the two component slices")
                continue
            seen.add(which)
            text = str(U(rz.term(st.value, st)))
            for n in ast.walk(st.value):
                if isinstance(n, ast.Name) and n.id in L.state:
                    text += " " + repr(L.state[n.id])
            other = "mean" if which == "cov" else "cov"
            if tags[which] not in text:
                why.append(f"`{U(st.targets[0])}` does not receive values computed from {tags[which]}")
            if tags[other] in text:
                why.append(f"`{U(st.targets[0])}` receives values computed from the other component's gradient list")
    if seen != {"cov", "mean"}:
        why.append(f"slices written: {sorted(seen)}")
    return ci, fn, why


def routing_obligations(prog, cname, rule, rel):
    """Every evaluation of the kernel / mean builders inside the class gets ITS part of the hyper-parameter vector: the argument is
    `<vector>[self.cov_slice]` (resp. mean_slice) of the method's own vector argument, or the stored self.cov_hyperpars /
    self.mean_hyperpars - which set_hyperparameters must itself cut with those slices.  A hand-written slice (`theta[1:]`) is
    right only for one particular mean / kernel pairing."""
    from ..term import Resolver
    from ..model import qual
    from .common import struct_ob
    out = []
    ci = prog.cls(cname)
    for mname, fn in ci.methods.items():
        if not fn.args.args:
            continue
        rz = Resolver(fn, prog, ci.module, ci)
        params = [a.arg for a in fn.args.args[1:]]
        why = []
        n_calls = 0
        for call, st in rz.calls(lambda f: f in ("self.cov.build_covariance", "self.cov.covariance_and_gradients",
                                                 "self.mean.build_mean", "self.mean.mean_and_gradients")):
            if not call.args:
                continue
            n_calls += 1
            which = "cov" if ".cov." in U(call.func) else "mean"
            t = U(rz.term(call.args[0], st))
            good = {f"self.{which}_hyperpars"} | {f"{p_}[self.{which}_slice]" for p_ in params} | {f"self.hyperpars[self.{which}_slice]"}
            if t not in good:
                why.append(f"line {call.lineno}: `{U(call)[:80]}` is given `{t[:60]}`, not the {which} part of the hyper-parameter vector "
                           f"(`<theta>[self.{which}_slice]`)")
        # the pairwise forms: self.cov(u, v, part), self.cov.gradient_terms(q, x, part), self.mean(q, part), self.mean.gradient(q, part)
        for fname_, pos_, which in (("self.cov", 2, "cov"), ("self.cov.gradient_terms", 2, "cov"), ("self.mean", 1, "mean"), ("self.mean.gradient", 1, "mean")):
            for call, st in rz.calls(lambda f, fname_=fname_: f == fname_):
                if len(call.args) <= pos_:
                    continue
                n_calls += 1
                t = U(rz.term(call.args[pos_], st))
                good = {f"self.{which}_hyperpars"} | {f"{p_}[self.{which}_slice]" for p_ in params} | {f"self.hyperpars[self.{which}_slice]"}
                if t not in good:
                    why.append(f"line {call.lineno}: `{U(call)[:80]}` is given `{t[:60]}`, not the {which} part of the hyper-parameter vector "
                               f"(`<theta>[self.{which}_slice]`)")
        # the stored parts are cut with the stored slices
        for st in ast.walk(fn):
            if isinstance(st, ast.Assign) and len(st.targets) == 1 and U(st.targets[0]) in ("self.cov_hyperpars", "self.mean_hyperpars"):
                n_calls += 1
                which = "cov" if "cov" in U(st.targets[0]) else "mean"
                t = U(rz.term(st.value, st))
                good = {f"self.hyperpars[self.{which}_slice]"} | {f"{p_}[self.{which}_slice]" for p_ in params}
                if t not in good:
                    why.append(f"line {st.lineno}: `{U(st)[:80]}` does not cut the stored vector with self.{which}_slice")
        if n_calls:
            out.append(struct_ob(rule, qual(ci, fn), not why, "; ".join(why[:2]), rel, fn.lineno, slots={"sites": n_calls}, tier="F"))
    return out
