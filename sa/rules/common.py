"""Helpers shared by the rule modules."""
from __future__ import annotations
import ast
from ..report import Ob, AnalysisError
from ..anf import R, Unsupported
from .. import anf


def rel(ci_or_mi):
    return getattr(ci_or_mi, "module", ci_or_mi).relpath


def formula_ob(rule, construct, got, want, file, line, what="", tier="F", detail=""):
    """Obligation got == want as normal forms."""
    ok = isinstance(got, R) and isinstance(want, R) and got.eq(want)
    msg = ""
    if not ok:
        diff = ""
        try:
            diff = f"; difference: {got - want}"
        except Exception:
            pass
        def cut(x, n=360):
            x = str(x)
            return x if len(x) <= n else x[:n] + " ...[truncated]"
        msg = f"{what}: code has  {cut(got)}  but the reference form is  {cut(want)}{cut(diff, 300)}"
    return Ob(rule, construct, ok, detail=detail, msg=msg, file=file, line=line, tier=tier,
              slots={"what": what, "code_form": str(got)[:400], "reference_form": str(want)[:400]})


def struct_ob(rule, construct, ok, msg, file, line, slots=None, tier="S", detail="", nontrivial=True):
    return Ob(rule, construct, ok, detail=detail, msg="" if ok else msg, file=file, line=line,
              tier=tier, slots=slots or {}, nontrivial=nontrivial)


def guard(fn):
    """Run fn(); an Unsupported construct becomes an AnalysisError (exit 2)."""
    try:
        return fn()
    except Unsupported as e:
        raise AnalysisError(f"construct outside the modelled algebra: {e}")


def returns(fn):
    return [n for n in ast.walk(fn) if isinstance(n, ast.Return)]


def last_return(fn):
    for st in reversed(fn.body):
        if isinstance(st, ast.Return):
            return st
    return None


def single_sym(r):
    """Name of the sym if r is exactly one sym atom, else None."""
    if not isinstance(r, R):
        return None
    st = r.single_term()
    if st and st[0] == 1 and len(st[1]) == 1 and st[1][0][1] == 1 and st[1][0][0][0] == "sym":
        return st[1][0][0][1]
    return None


def gradient_lists_in_order(fn, names):
    """Every loop / comprehension that walks one of the gradient lists iterates the bare list (no slicing,
    reversal or sorting), so that entry k of the result belongs to hyper-parameter k.  Returns problems."""
    problems = []
    for n in ast.walk(fn):
        its = []
        if isinstance(n, ast.For):
            its.append(n.iter)
        elif isinstance(n, (ast.ListComp, ast.GeneratorExp)):
            its.extend(g.iter for g in n.generators)
        for it in its:
            used = {x.id for x in ast.walk(it) if isinstance(x, ast.Name)} & set(names)
            order_kept = isinstance(it, ast.Call) and isinstance(it.func, ast.Name) and it.func.id in ("enumerate", "zip") \
                and all(isinstance(a_, (ast.Name, ast.Attribute)) for a_ in it.args) and not it.keywords
            if used and not isinstance(it, ast.Name) and not order_kept:
                problems.append(f"`{ast.unparse(it)}` (line {it.lineno}) re-orders or subsets the gradient list {sorted(used)}")
    return problems


# ---------------------------------------------------------------------------- canonical source text
# Rules that compare source text do so on a canonical spelling in which the operands of commutative
# arithmetic are ordered, keyword arguments are sorted and redundant parentheses vanish, so that a
# behaviour-preserving re-ordering of `a * b` or `f(x=1, y=2)` never changes a verdict.
import copy as _copy


def _is_seq_like(n):
    """operands for which `+` is concatenation (order matters): literals, comprehensions, strings, and the constructors /
    conversions that return lists, tuples or strings"""
    if isinstance(n, ast.IfExp):
        return _is_seq_like(n.body) or _is_seq_like(n.orelse)
    if isinstance(n, ast.Call):
        f = n.func
        nm = f.id if isinstance(f, ast.Name) else f.attr if isinstance(f, ast.Attribute) else None
        if nm in ("list", "tuple", "sorted", "str", "repr", "format", "join", "tolist", "split", "reversed", "chain", "bytes"):
            return True
    if isinstance(n, ast.Subscript) and isinstance(n.slice, ast.Slice) and _is_seq_like(n.value):
        return True
    return isinstance(n, (ast.List, ast.Tuple, ast.ListComp, ast.JoinedStr, ast.Dict, ast.Set)) or (
        isinstance(n, ast.Constant) and isinstance(n.value, (str, bytes)))


class _Canon(ast.NodeTransformer):
    def _flatten(self, node, op_type):
        if isinstance(node, ast.BinOp) and isinstance(node.op, op_type):
            return self._flatten(node.left, op_type) + self._flatten(node.right, op_type)
        return [node]

    def visit_BinOp(self, node):
        self.generic_visit(node)
        if isinstance(node.op, (ast.Mult, ast.Add)):
            ops = self._flatten(node, type(node.op))
            if not any(_is_seq_like(o) for o in ops):
                ops = sorted(ops, key=lambda n: ast.unparse(n))
                out = ops[0]
                for o in ops[1:]:
                    out = ast.BinOp(left=out, op=type(node.op)(), right=o)
                return ast.copy_location(out, node)
        return node

    def visit_Call(self, node):
        self.generic_visit(node)
        if all(k.arg is not None for k in node.keywords):
            node.keywords = sorted(node.keywords, key=lambda k: k.arg)
        return node


def _canon_text(node):
    t = _Canon().visit(_copy.deepcopy(node))
    ast.fix_missing_locations(t)
    return ast.unparse(t)


def _canon_literal(text):
    """Canonical spelling of a code fragment given as a string; unparsable fragments are returned unchanged."""
    t = text.strip()
    try:
        return _canon_text(ast.parse(t, mode="eval").body)
    except SyntaxError:
        pass
    try:
        return _canon_text(ast.parse(t))
    except SyntaxError:
        pass
    # a bare generator / comprehension body:  `f(x) for x in xs`
    for l, r in (("(", ")"), ("[", "]")):
        try:
            out = _canon_text(ast.parse(l + t + r, mode="eval").body)
            return out[1:-1] if out.startswith(l) and out.endswith(r) else out
        except SyntaxError:
            continue
    # a compound-statement header:  `for i in xs:` / `if c:`
    for suffix in (" pass", "\n    pass"):
        try:
            out = _canon_text(ast.parse(t + suffix))
            out = out[: out.rfind("pass")].rstrip()
            return out
        except SyntaxError:
            continue
    return text


class CText(str):
    """Canonical source text: comparisons and containment canonicalise the other operand first."""
    def __eq__(self, other):
        if isinstance(other, str) and not isinstance(other, CText):
            return str.__eq__(self, _canon_literal(other))
        return str.__eq__(self, other)

    def __ne__(self, other):
        return not self.__eq__(other)

    def __hash__(self):
        return str.__hash__(self)

    def __contains__(self, item):
        if isinstance(item, str) and not isinstance(item, CText):
            return str.__contains__(self, _canon_literal(item)) or str.__contains__(self, item)
        return str.__contains__(self, item)


def U(node):
    """Canonical text of an AST node (use instead of ast.unparse wherever text is compared)."""
    return CText(_canon_text(node))


def purity_obligations(prog, rule, classes, file_of=None, methods=None):
    """One obligation per method of the given classes: no in-place update of a caller-owned argument (directly or through a
    view / alias).  Decided by the ownership engine (may-alias x in-place sinks); a fresh copy made first discharges it."""
    from ..own import Ownership, param_mutations
    from ..model import qual
    own = Ownership(prog)
    out = []
    for ci in classes:
        for mname, fn in ci.methods.items():
            if methods is not None and mname not in methods:
                continue
            hits = param_mutations(own, ci, fn)
            msg = ""
            if hits:
                pn, line, text = hits[0]
                msg = (f"`{text}` (line {line}) updates the caller's `{pn}` in place (possibly through a view or alias): the array "
                       f"handed in - model predictions, hyper-parameters, query points - is silently changed for every later use")
            out.append(struct_ob(rule, qual(ci, fn), not hits, msg, ci.module.relpath, hits[0][1] if hits else fn.lineno,
                                 slots={"sinks": [list(h) for h in hits]}, nontrivial=bool(len(fn.args.args) > 1)))
    return out


def default_instance_obligations(prog, rule, sites):
    """One obligation per (class, method): no parameter default constructs a stateful repository object (such an object
    is created once, at import, and shared - with whatever was last passed to it - by every call that relies on the default)."""
    from .. import lints
    from ..model import qual
    out = []
    for cname, mname in sites:
        ci, fn = prog.method(cname, mname)
        hits = lints.shared_default_instances(prog, ci.module, fn)
        msg = ""
        if hits:
            pn, cls, meth = hits[0]
            msg = (f"the default of `{pn}` is an instance `{cls}()` created once at import; {cls}.{meth} stores per-problem state on it, so every "
                   f"object built with the default shares (and overwrites) that state")
        out.append(struct_ob(rule, qual(ci, fn), not hits, msg, ci.module.relpath, fn.lineno, slots={"defaults": [list(h) for h in hits]}))
    # positive example: the lint must still recognise the pattern
    ex = ast.parse("def f(self, k=SquaredExponential()):\n    pass\n").body[0]
    if prog.has_cls("SquaredExponential") and not lints.shared_default_instances(prog, None, ex):
        raise AnalysisError("shared-default lint lost its positive example")
    return out


def refresh_obligation(prog, rule, cname, mname):
    """A state-refreshing method (set_hyperparameters ...) must re-derive every attribute it maintains on every normal path.
    A conditional refresh (memoisation) is accepted only when every attribute consulted by the guard owns its data - a key
    that aliases the caller's array compares the array with itself after an in-place edit, and the stale state survives."""
    from ..own import Ownership, class_attr_aliases, root_param
    from ..model import qual
    ci, fn = prog.method(cname, mname)
    sn = fn.args.args[0].arg

    def assigned(stmts):
        """(definitely assigned attrs, all assigned attrs, [(attr, guarding If)] for conditional ones)."""
        must, anyw, cond = set(), set(), []
        for k_, st in enumerate(stmts):
            if isinstance(st, ast.If) and not st.orelse and st.body and isinstance(st.body[-1], ast.Return):
                # an early return: everything after it happens only when the test fails
                m1, a1, c1 = assigned(st.body[:-1])
                m2, a2, c2 = assigned(stmts[k_ + 1:])
                anyw |= a1 | a2
                cond += c1 + c2 + [(a, st) for a in (a1 | a2) if a not in {x for x, _ in c1 + c2}]
                return must, anyw, cond
            if isinstance(st, ast.Assign):
                for t in st.targets:
                    for x in ast.walk(t):
                        if isinstance(x, ast.Attribute) and isinstance(x.value, ast.Name) and x.value.id == sn and isinstance(x.ctx, ast.Store):
                            must.add(x.attr)
                            anyw.add(x.attr)
            elif isinstance(st, ast.If):
                m1, a1, c1 = assigned(st.body)
                m2, a2, c2 = assigned(st.orelse)
                raises1 = bool(st.body) and isinstance(st.body[-1], ast.Raise)
                raises2 = bool(st.orelse) and isinstance(st.orelse[-1], ast.Raise)
                both = (m2 if raises1 else m1 if raises2 else (m1 & m2))
                must |= both
                anyw |= a1 | a2
                cond += c1 + c2 + [(a, st) for a in (a1 | a2) - both - {a for a, _ in c1 + c2}]
            elif isinstance(st, (ast.For, ast.While)):
                m1, a1, c1 = assigned(st.body)
                anyw |= a1
                cond += c1 + [(a, st) for a in a1]
            elif isinstance(st, (ast.With, ast.Try)):
                m1, a1, c1 = assigned(st.body)
                must |= m1
                anyw |= a1
                cond += c1
        return must, anyw, cond
    must, anyw, cond = assigned(fn.body)
    cond = [(a, st) for a, st in cond if a not in must]
    why = []
    if cond:
        own = Ownership(prog)
        attr_out, _ = class_attr_aliases(own, prog, ci, ctor=mname)
        for a, st in cond:
            keys = sorted({x.attr for x in ast.walk(st.test) if isinstance(x, ast.Attribute) and isinstance(x.value, ast.Name) and x.value.id == sn}
                          | {x.args[1].value for x in ast.walk(st.test) if isinstance(x, ast.Call) and isinstance(x.func, ast.Name)
                             and x.func.id == "getattr" and len(x.args) >= 2 and isinstance(x.args[0], ast.Name) and x.args[0].id == sn
                             and isinstance(x.args[1], ast.Constant) and isinstance(x.args[1].value, str)}) \
                if isinstance(st, ast.If) else []
            if isinstance(st, ast.If):
                msg_ = size_only_key(prog, ci, fn, sn, a, st)
                if msg_:
                    why.append(msg_)
                    continue
            shared = [k for k in keys if any(root_param(r) is not None for r in attr_out.get(k, ()))]
            # the key is compared EXACTLY: a tolerance (allclose / isclose) has an absolute scale - two different arguments in small
            # units compare equal and the stale value is returned
            if isinstance(st, ast.If):
                tol = [x for x in ast.walk(st.test) if isinstance(x, ast.Call) and U(x.func).split(".")[-1] in ("allclose", "isclose", "assert_allclose")]
                if tol:
                    why.append(f"self.{a} is refreshed only when `{U(st.test)[:80]}` (line {st.lineno}): `{U(tol[0].func)}` compares the key with a "
                               f"tolerance (absolute 1e-8 by default), so nearby but different arguments get the stale value")
                    continue
            # the arguments the refreshed value is computed from must all be looked at by the guard
            from ..term import Resolver
            rz_ = Resolver(fn, prog, ci.module, ci)
            params_ = {x.arg for x in fn.args.args[1:]}
            dep = set()
            for s2 in ast.walk(fn):
                if isinstance(s2, ast.Assign) and any(isinstance(t, ast.Attribute) and isinstance(t.value, ast.Name) and t.value.id == sn
                                                       and t.attr == a for t in s2.targets):
                    vt_ = rz_.term(s2.value, s2)
                    if any(isinstance(x, ast.Attribute) and isinstance(x.value, ast.Name) and x.value.id == sn and x.attr == a
                           for x in ast.walk(vt_)):
                        continue         # an update of the attribute from its own value (accumulation), not a memoised result
                    dep |= {x.id for x in ast.walk(vt_) if isinstance(x, ast.Name) and x.id in params_}
            seen_ = {x.id for x in ast.walk(rz_.term(st.test, st)) if isinstance(x, ast.Name)} if isinstance(st, ast.If) else set()
            unseen = sorted(dep - seen_)
            # the same question for PARTS of an argument: attributes this method cuts out of it (self.cov_hyperpars = theta[cov_slice],
            # self.mean_hyperpars = theta[mean_slice]) - a value computed from one part is not protected by a key made of another
            if not unseen and isinstance(st, ast.If):
                parts, whole = {}, set()
                for s3 in fn.body:
                    if isinstance(s3, ast.Assign) and len(s3.targets) == 1 and isinstance(s3.targets[0], ast.Attribute) \
                            and isinstance(s3.targets[0].value, ast.Name) and s3.targets[0].value.id == sn:
                        v3 = s3.value
                        if isinstance(v3, ast.Name) and v3.id in params_:
                            whole.add(s3.targets[0].attr)             # self.hyperpars = hyperpars
                        elif isinstance(v3, ast.Subscript) and ((isinstance(v3.value, ast.Name) and v3.value.id in params_) or (
                                isinstance(v3.value, ast.Attribute) and isinstance(v3.value.value, ast.Name) and v3.value.value.id == sn
                                and v3.value.attr in whole)):
                            parts[s3.targets[0].attr] = U(v3)

                def part_tokens(node):
                    toks = set()
                    sliced = set()
                    for x in ast.walk(node):
                        # a slice of the argument written in place, theta[self.cov_slice], is a part of it too
                        if isinstance(x, ast.Subscript) and isinstance(x.value, ast.Name) and x.value.id in params_ \
                                and isinstance(x.slice, ast.Attribute) and isinstance(x.slice.value, ast.Name) and x.slice.value.id == sn:
                            toks.add(x.slice.attr)
                            sliced.add(id(x.value))
                    for x in ast.walk(node):
                        if id(x) in sliced:
                            continue
                        if isinstance(x, ast.Attribute) and isinstance(x.value, ast.Name) and x.value.id == sn and x.attr in parts:
                            toks.add(x.attr)
                        elif (isinstance(x, ast.Name) and x.id in params_) or (isinstance(x, ast.Attribute) and isinstance(x.value, ast.Name)
                                                                               and x.value.id == sn and x.attr in whole):
                            toks.add("*")        # the whole argument
                    return toks
                guard_t = part_tokens(st.test)
                for s3 in ast.walk(fn):
                    if isinstance(s3, ast.Assign) and len(s3.targets) == 1 and isinstance(s3.targets[0], ast.Name) \
                            and any(isinstance(x, ast.Name) and x.id == s3.targets[0].id for x in ast.walk(st.test)):
                        guard_t |= part_tokens(s3.value)         # a local key (`key = tuple(self.cov_hyperpars)`)
                need_t = set()
                for s2 in ast.walk(st):
                    if isinstance(s2, ast.Assign) and any(isinstance(t, ast.Attribute) and isinstance(t.value, ast.Name) and t.value.id == sn
                                                           and t.attr == a for t in s2.targets):
                        need_t |= part_tokens(s2.value)
                if "*" not in guard_t and guard_t:
                    miss_t = sorted((need_t - guard_t) - {"*"}) + (["the whole argument"] if "*" in need_t else [])
                    if miss_t:
                        why.append(f"self.{a} is computed from self.{miss_t[0]} but is refreshed only when `{U(st.test)}` (line {st.lineno}), a test on "
                                   f"{sorted(guard_t)} only: a call that changes just {miss_t[0]} keeps the stale value")
                        continue
            if unseen and isinstance(st, ast.If):
                why.append(f"self.{a} is computed from the argument `{unseen[0]}` but is refreshed only when `{U(st.test)}` (line {st.lineno}), "
                           f"a test that does not look at `{unseen[0]}`: a call with another value of it gets the stale result")
            elif not keys:
                why.append(f"self.{a} is refreshed only conditionally (line {st.lineno}) and the guard consults no stored key")
            elif shared:
                why.append(f"self.{a} is refreshed only when `{U(st.test)}` (line {st.lineno}), but the stored key self.{shared[0]} may alias the "
                           f"caller's array: after an in-place edit of that array the guard compares it with itself and the stale value is kept")
    return struct_ob(rule, qual(ci, fn), not why, "; ".join(why[:3]), ci.module.relpath, fn.lineno,
                     slots={"maintained": sorted(anyw), "conditional": sorted({a for a, _ in cond})})


def path_statements_all(stmts, assume):
    """Like path_statements, but undecided branches are entered on both arms and every simple statement met is returned
    (a flat over-approximation of what may execute under the assumption)."""
    out = []
    for st in path_statements(stmts, assume):
        if isinstance(st, ast.If):
            out.extend(path_statements_all(st.body, assume))
            out.extend(path_statements_all(st.orelse, assume))
        elif isinstance(st, (ast.For, ast.While, ast.With, ast.Try)):
            out.extend(path_statements_all(st.body, assume))
        else:
            out.append(st)
    return out


def path_statements(stmts, assume):
    """Statements executed, in order, when every test of the form `<name> is None` / `<name> is not None` / `not ...` over the
    names in `assume` ({name: True if it is None else False}) is decided accordingly.  Undecided `if` statements are returned
    as they are (not entered).  Stops at the first return / raise reached on the path."""
    out = []

    def decide(test):
        if isinstance(test, ast.UnaryOp) and isinstance(test.op, ast.Not):
            d = decide(test.operand)
            return None if d is None else not d
        if isinstance(test, ast.BoolOp):
            ds = [decide(v) for v in test.values]
            if isinstance(test.op, ast.And):
                return False if False in ds else True if all(d is True for d in ds) else None
            return True if True in ds else False if all(d is False for d in ds) else None
        if isinstance(test, ast.Compare) and len(test.ops) == 1 and isinstance(test.left, (ast.Name, ast.Attribute)) \
                and ast.unparse(test.left) in assume \
                and isinstance(test.comparators[0], ast.Constant) and test.comparators[0].value is None:
            if isinstance(test.ops[0], ast.Is):
                return assume[ast.unparse(test.left)]
            if isinstance(test.ops[0], ast.IsNot):
                return not assume[ast.unparse(test.left)]
        return None

    def walk(block):
        for st in block:
            if isinstance(st, ast.If):
                d = decide(st.test)
                if d is True:
                    if walk(st.body):
                        return True
                    continue
                if d is False:
                    if walk(st.orelse):
                        return True
                    continue
            out.append(st)
            if isinstance(st, (ast.Return, ast.Raise)):
                return True
        return False
    walk(stmts)
    return out


def dtype_hazard_obligations(prog, rule, rels):
    """One obligation per source file: no construct that silently switches to integer arithmetic for a legal integer-typed
    input (see lints.integer_dtype_hazards).  The repository's numeric code converts with `dtype=float` or not at all."""
    from .. import lints
    from ..model import iter_functions
    out = []
    for rel_ in rels:
        mi = prog.module(rel_)
        hits = []
        n_fn = 0
        for qn, fn in iter_functions(mi.tree):
            n_fn += 1
            for line, text, why in lints.integer_dtype_hazards(fn):
                hits.append((qn, line, text, why))
        msg = ""
        if hits:
            qn, line, text, why = hits[0]
            msg = f"`{text}` in {qn} (line {line}): {why}" + (f" (+{len(hits) - 1} more)" if len(hits) > 1 else "")
        out.append(struct_ob(rule, rel_, not hits, msg, rel_, hits[0][1] if hits else 0, slots={"functions_scanned": n_fn, "hits": len(hits)}))
    ex = ast.parse("def f(q, x):\n    return asarray(q, dtype=x.dtype), reciprocal(x), zeros_like(x)\n").body[0]
    if len(lints.integer_dtype_hazards(ex)) != 3:
        raise AnalysisError("dtype-hazard lint lost its positive examples")
    return out


def size_only_key(prog, ci, fn, sn, a, st):
    """self.<a> is rebuilt under the guard `st` from a stored container whose LENGTH is all the guard looks at, while the program
    overwrites items of that container in place somewhere: the message, or None."""
    from ..term import Resolver as _Rz
    try:
        gt_ = _Rz(fn, prog, ci.module, ci).term(st.test, st)
    except Exception:
        gt_ = st.test
    keys = sorted({x.attr for x in ast.walk(gt_) if isinstance(x, ast.Attribute) and isinstance(x.value, ast.Name) and x.value.id == sn})
    sized = set()
    for x in ast.walk(gt_):
        if isinstance(x, ast.Call) and isinstance(x.func, ast.Name) and x.func.id == "len" and x.args:
            sized |= {id(y) for y in ast.walk(x.args[0])}
        elif isinstance(x, ast.Attribute) and x.attr in ("size", "shape", "ndim"):
            sized |= {id(y) for y in ast.walk(x.value)}
    size_only = [k for k in keys if k != a and all(id(x) in sized for x in ast.walk(gt_) if isinstance(x, ast.Attribute)
                                                   and isinstance(x.value, ast.Name) and x.value.id == sn and x.attr == k)]
    def value_term(s2):
        try:
            return _Rz(fn, prog, ci.module, ci).term(s2.value, s2)
        except Exception:
            return s2.value
    for k in size_only:
        reads_items = any(isinstance(s2, ast.Assign) and any(isinstance(t, ast.Attribute) and isinstance(t.value, ast.Name) and t.value.id == sn
                                                              and t.attr == a for t in s2.targets)
                          and any(isinstance(x, ast.Attribute) and x.attr == k for x in ast.walk(value_term(s2))) for s2 in ast.walk(st))
        if not reads_items:
            continue
        for rel2, mi2 in prog.by_rel.items():
            for n2 in ast.walk(mi2.tree):
                tg2 = n2.targets if isinstance(n2, ast.Assign) else [n2.target] if isinstance(n2, ast.AugAssign) else []
                for t in tg2:
                    for x in (t.elts if isinstance(t, (ast.Tuple, ast.List)) else [t]):
                        if isinstance(x, ast.Subscript) and isinstance(x.value, ast.Attribute) and x.value.attr == k:
                            return (f"self.{a} is rebuilt from self.{k} only when `{U(st.test)}` (line {st.lineno}), a test on the LENGTH of "
                                    f"{k}; {rel2}:{n2.lineno} `{U(n2)[:70]}` overwrites an item in place without changing the length, so the "
                                    f"remembered value keeps the old item")
    return None


def size_keyed_obligations(prog, rule, classes):
    """One obligation per method that assigns an attribute under an `if`: a remembered copy of a stored container is not keyed on
    the container's length alone when the program overwrites its items in place."""
    from ..model import qual
    out = []
    for ci in classes:
        for mname, fn in ci.methods.items():
            if not fn.args.args or any(ast.unparse(d) in ("staticmethod", "classmethod") for d in fn.decorator_list):
                continue
            sn = fn.args.args[0].arg
            msgs, n = [], 0
            for st in ast.walk(fn):
                if not isinstance(st, ast.If):
                    continue
                for s2 in ast.walk(st):
                    if isinstance(s2, ast.Assign):
                        for t in s2.targets:
                            if isinstance(t, ast.Attribute) and isinstance(t.value, ast.Name) and t.value.id == sn:
                                n += 1
                                m_ = size_only_key(prog, ci, fn, sn, t.attr, st)
                                if m_ and m_ not in msgs:
                                    msgs.append(m_)
            if n:
                out.append(struct_ob(rule, qual(ci, fn), not msgs, "; ".join(msgs[:2]), ci.module.relpath, fn.lineno, slots={"guarded_stores": n}))
    return out


def memo_obligations(prog, rule, classes, skip=("__init__", "pass_spatial_data", "estimate_hyperpar_bounds", "load", "load_items")):
    """refresh_obligation for every method of the classes that assigns an attribute of self only conditionally (outside the
    set-up methods): a memoised result must be keyed on every argument it is computed from, by a key that owns its data."""
    out = []
    for ci in classes:
        for mname, fn in ci.methods.items():
            if mname in skip or not fn.args.args or any(ast.unparse(d) in ("staticmethod", "classmethod") for d in fn.decorator_list):
                continue
            o = refresh_obligation(prog, rule, ci.name, mname)
            if not o.ok and any(o.construct == q or o.construct.startswith(q + "[") for q in getattr(prog, "residue", {})):
                # the method was changed beyond what the normaliser undoes (a new helper inlined into it): ask the same question of
                # the class as written - the guard, its key and who owns the key do not depend on how the method is spelled
                raw = prog.as_written()
                rci = raw.classes.get(ci.name)
                for rm, rfn in (rci.methods.items() if rci is not None else ()):
                    if rm in skip or not rfn.args.args or any(ast.unparse(d) in ("staticmethod", "classmethod") for d in rfn.decorator_list):
                        continue
                    ro = refresh_obligation(raw, rule, ci.name, rm)
                    if not ro.ok and not any(x.construct == ro.construct for x in out):
                        out.append(ro)
            if o.slots.get("conditional") or not o.ok:
                out.append(o)
    return out


def cancellation_obligations(prog, rule, rels):
    """One obligation per source file: no squared distance is formed from the expanded square |p|^2 + |q|^2 - 2 p.q (see
    lints.expanded_square_distance); temporaries are inlined first (term resolution), so the three summands may be spread
    over several statements."""
    from .. import lints
    from ..model import iter_functions
    from ..term import Resolver
    out = []
    for rel_ in rels:
        mi = prog.module(rel_)
        hits, n_fn = [], 0
        for qn, fn in iter_functions(mi.tree):
            n_fn += 1
            try:
                rz = Resolver(fn, prog, mi)
            except Exception:
                rz = None
            for st in ast.walk(fn):
                if not isinstance(st, (ast.Assign, ast.AugAssign, ast.Return, ast.Expr)) or getattr(st, "value", None) is None:
                    continue
                term = st.value
                if rz is not None:
                    try:
                        term = rz.term(st.value, at=st)
                    except Exception:
                        term = st.value
                for text in lints.expanded_square_distance(term):
                    hits.append((qn, st.lineno, text))
                    break
        msg = ""
        if hits:
            qn, line, text = hits[0]
            msg = (f"`{text[:160]}` in {qn} (line {line}): a squared distance formed as |p|^2 + |q|^2 - 2 p.q loses all significant "
                   f"digits when the coordinates are large against their separation; the kernel then differs from the one built "
                   f"from coordinate differences" + (f" (+{len(hits) - 1} more)" if len(hits) > 1 else ""))
        out.append(struct_ob(rule, rel_, not hits, msg, rel_, hits[0][1] if hits else 0, slots={"functions_scanned": n_fn, "hits": len(hits)}))
    ex = ast.parse("def f(p, q):\n    a = (p ** 2).sum(axis=1)\n    b = (q ** 2).sum(axis=1)\n    return a[:, None] + b[None, :] - 2 * (p @ q.T)\n").body[0]
    if not lints.expanded_square_distance(Resolver(ex).term(ex.body[-1].value, at=ex.body[-1])):
        raise AnalysisError("cancellation lint lost its positive example")
    return out


def overflow_obligations(prog, rule, classes, methods=None, bounded=("theta",)):
    """One obligation per method (of the given classes) whose returned term contains an exponential: an exp-like factor whose
    argument depends on the data and is not provably <= 0 must reach the result through a denominator (or log1p / logaddexp /
    tanh), where it saturates; as a plain factor or numerator it overflows to inf for admissible inputs and inf * 0 or
    inf / inf gives nan where the true value is finite (see lints.unsaturated_exp)."""
    from .. import lints
    from ..term import Resolver
    from ..model import qual
    out = []
    EXPS = ("exp", "expm1", "exp2", "sinh", "cosh")
    for ci in classes:
        res = {}
        for c in prog.mro(ci):
            for m, fn in c.methods.items():
                rz0 = Resolver(fn, prog, c.module, c)
                for st in ast.walk(fn):
                    if isinstance(st, ast.Assign) and len(st.targets) == 1 and isinstance(st.targets[0], ast.Attribute) \
                            and U(st.targets[0].value) == "self":
                        res.setdefault(st.targets[0].attr, []).append(rz0.term(st.value, st))
        for m, fn in ci.methods.items():
            if methods is not None and m not in methods:
                continue
            rz = Resolver(fn, prog, ci.module, ci)
            rets = rz.return_terms()
            if not any(isinstance(n, ast.Call) and U(n.func).split(".")[-1] in EXPS for t in rets for n in ast.walk(t)):
                continue
            bd = [a.arg for a in fn.args.args if a.arg in bounded]
            hits = [h for t in rets for h in lints.unsaturated_exp(t, bd, res)]
            under = [h for t in rets for h in lints.log_of_vanishing_product(t, bd)]
            msg = ""
            if under and not hits:
                out.append(struct_ob(rule, qual(ci, fn), False,
                                     f"`{U(under[0])[:120]}` takes the logarithm of a product with an exponential factor: the factor underflows to 0 "
                                     f"for admissible inputs and the result is -inf where the log-density is finite (write the exponent itself)",
                                     ci.module.relpath, fn.lineno, tier="F"))
                continue
            if hits:
                msg = (f"`{U(hits[0])[:120]}` can exceed the floating-point range for admissible inputs (its argument depends on the "
                       f"data and is not provably <= 0) and its value reaches the result as a plain factor or numerator, not through a "
                       f"denominator: inf * 0 or inf / inf gives nan where the true value is finite")
            out.append(struct_ob(rule, qual(ci, fn), not hits, msg, ci.module.relpath, fn.lineno, tier="F"))
    ex = ast.parse("expm1(z) / (exp(z) + 1)", mode="eval").body
    if len(lints.unsaturated_exp(ex)) != 1:
        raise AnalysisError("overflow lint lost its positive example")
    return out


def stored_state_obligations(prog, rule, sites, what, scalar_ok=True):
    """One obligation per (class, method, roots, paths): inside the method no object stored in / reached from the named roots
    (and, if `paths` is given, only those access paths) is updated in place through a local alias, an element or a view
    (see own.state_sinks).  `roots` maps local names (the receiver, a parameter) to labels."""
    from ..own import state_sinks, component_table
    from ..model import qual
    out = []
    for ci, fn, roots, paths in sites:
        methods = None
        if ci is not None:
            methods = {}
            for c in reversed(prog.mro(ci)):
                methods.update(c.methods)
            methods.pop(fn.name, None)
        comps = component_table(prog, exclude=prog.mro(ci)) if ci is not None else None
        hits = [h for h in state_sinks(fn, roots, methods=methods, components=comps) if paths is None or h[0] in paths]
        if scalar_ok:
            hits = [h for h in hits if not _scalar_attr(prog, h[0])]
        msg = ""
        if hits:
            pth, line, text = hits[0]
            msg = f"`{text}` (line {line}) updates `{pth}` in place (through a local alias / element / view): {what}"
        out.append(struct_ob(rule, qual(ci, fn) if ci is not None else fn.name, not hits, msg, ci.module.relpath if ci is not None else "",
                             hits[0][1] if hits else fn.lineno, slots={"roots": sorted(roots), "sinks": [list(h) for h in hits]}, tier="E"))
    ex = ast.parse("def f(cls, priors):\n    v = priors[0].variables\n    for p in priors[1:]:\n        v += p.variables\n    return v\n").body[0]
    if not state_sinks(ex, {"priors": "priors"}):
        raise AnalysisError("stored-state analysis lost its positive example")
    return out


def scratch_owned_obligations(prog, rule, classes, what="a result that is kept (a memoised matrix, a table built at set-up) is changed by the "
                              "computation that consumes it: the next evaluation starts from the changed value"):
    """One obligation per method of the classes: every object the method updates in place (`K += S`, `x[i] = v`, `.sort()`,
    out=) through a local name is its own scratch - not an object kept on the receiver and reached through an alias, an element,
    a view or the result of one of the receiver's own methods.  Direct updates of the receiver's attributes (`self.n[i] += 1`) are
    the class managing its own state and are not reported here."""
    sites = []
    for ci in classes:
        for m, fn in ci.methods.items():
            if fn.args.args and not any(U(d) in ("staticmethod", "classmethod") for d in fn.decorator_list):
                sites.append((ci, fn, {fn.args.args[0].arg: "self"}, None))
    out = []
    for o in stored_state_obligations(prog, rule, sites, what):
        if not o.ok:
            sinks = [h for h in o.slots["sinks"] if not h[2].lstrip().startswith("self.")]
            if not sinks:
                o = struct_ob(rule, o.construct, True, "", o.file, o.line, slots={"roots": o.slots["roots"], "sinks": []}, tier="E")
        out.append(o)
    return out


def current_state_obligations(prog, rule, classes, what):
    """One obligation per method (of the classes) that contains a loop: no local computed BEFORE the loop from state the loop body
    changes (directly, through the receiver's methods, or through the methods of a helper object the constructor fixes) is handed,
    inside the loop and without being recomputed, to one of the receiver's own methods (engine E3, sa/effects.py)."""
    from ..effects import Effects, stale_in_loops
    from ..model import qual
    out = []
    eff = Effects(prog)
    for ci in classes:
        for m, fn in ci.methods.items():
            if any(U(d) in ("staticmethod", "classmethod") for d in fn.decorator_list):
                continue
            hits, n_loops = stale_in_loops(prog, ci, fn, eff)
            if not n_loops:
                continue
            msg = ""
            if hits:
                v, lline, dline, path, dtext, sink = hits[0]
                msg = (f"`{dtext}` is computed before the loop at line {lline} from self.{'.'.join(path)}, which the loop body changes; the "
                       f"loop then hands the old value to `{sink}` next to freshly read state: {what}")
            out.append(struct_ob(rule, qual(ci, fn), not hits, msg, ci.module.relpath, hits[0][1] if hits else fn.lineno,
                                 slots={"loops": n_loops, "stale": [h[0] for h in hits]}, tier="E"))
    from ..effects import self_test
    if not self_test():
        raise AnalysisError("stale-state analysis lost its positive example")
    return out


def _identity_memo_hits(fn, stores, holder):
    """Reasons why `fn` memoises on the IDENTITY of a mutable argument: the remembered key is the argument object itself (or a
    weak reference to it) and / or the guard asks `is`, `id(..)`: after the caller edits that array in place the same object holds
    other data and the remembered result is handed out for it.  `stores`: names of the remembered state (module globals / attributes of
    `holder`)."""
    params = {a.arg for a in fn.args.args + fn.args.kwonlyargs} - {holder}
    why = []

    def mentions_store(e):
        for n in ast.walk(e):
            if isinstance(n, ast.Name) and n.id in stores and holder is None:
                return True
            if isinstance(n, ast.Attribute) and isinstance(n.value, ast.Name) and n.value.id == holder and n.attr in stores:
                return True
        return False
    # what is remembered
    for st in ast.walk(fn):
        if not isinstance(st, ast.Assign):
            continue
        for t in st.targets:
            tn = t.id if isinstance(t, ast.Name) and holder is None else t.attr if isinstance(t, ast.Attribute) and isinstance(t.value, ast.Name) \
                and t.value.id == holder else None
            if tn not in stores:
                continue
            elts = st.value.elts if isinstance(st.value, (ast.Tuple, ast.List)) else [st.value]
            for e in elts:
                if isinstance(e, ast.Name) and e.id in params:
                    pass      # whether a bare reference is a key or the payload is decided by the guard below
                if isinstance(e, ast.Call) and U(e.func).split(".")[-1] in ("ref", "proxy", "id") and e.args and isinstance(e.args[0], ast.Name) \
                        and e.args[0].id in params:
                    why.append(f"`{U(st)[:100]}` remembers `{U(e)}` - the identity of the caller's object, not its contents")
    # how the guard recognises "the same input"
    for n in ast.walk(fn):
        if isinstance(n, (ast.If, ast.IfExp, ast.While)) and mentions_store(n.test):
            for c in ast.walk(n.test):
                if isinstance(c, ast.Compare):
                    sides = [c.left] + list(c.comparators)
                    for op, a, b in zip(c.ops, sides, sides[1:]):
                        if isinstance(op, (ast.Is, ast.IsNot)):
                            pa = [x for x in (a, b) if isinstance(x, ast.Name) and x.id in params]
                            if pa and mentions_store(a if pa[0] is b else b):
                                why.append(f"the guard `{U(n.test)[:100]}` recognises a repeated input by object identity (`is`)")
                        if any(isinstance(x, ast.Call) and U(x.func) == "id" and x.args and isinstance(x.args[0], ast.Name) and x.args[0].id in params
                               for side in (a, b) for x in ast.walk(side)):
                            why.append(f"the guard `{U(n.test)[:100]}` recognises a repeated input by id()")
    return why


def identity_memo_obligations(prog, rule, rels):
    """One obligation per source file: no function or method remembers a result keyed on the identity of a mutable argument
    (module-level `global` state or an attribute of the receiver)."""
    from ..model import iter_functions
    out = []
    for rel_ in rels:
        mi = prog.module(rel_)
        hits, n_fn, n_memo = [], 0, 0
        for qn, fn in iter_functions(mi.tree):
            n_fn += 1
            globs = {g for st in ast.walk(fn) if isinstance(st, ast.Global) for g in st.names}
            holder = fn.args.args[0].arg if "." in qn and fn.args.args and not any(U(d) == "staticmethod" for d in fn.decorator_list) else None
            attrs = set()
            if holder is not None:
                attrs = {t.attr for st in ast.walk(fn) if isinstance(st, ast.Assign) for t in st.targets
                         if isinstance(t, ast.Attribute) and isinstance(t.value, ast.Name) and t.value.id == holder}
            for stores, h in ((globs, None), (attrs, holder)):
                if stores:
                    n_memo += 1
                    for w in _identity_memo_hits(fn, stores, h):
                        hits.append((fn.lineno, qn, w))
        msg = ""
        if hits:
            line, qn, w = hits[0]
            msg = (f"{qn}: {w}; an array edited in place between two calls is the same object with other data, and the result "
                   f"computed for the old data is returned for it")
        out.append(struct_ob(rule, rel_, not hits, msg, rel_, hits[0][0] if hits else 0,
                             slots={"functions_scanned": n_fn, "with_remembered_state": n_memo, "hits": len(hits)}, tier="E"))
    ex = ast.parse("def f(x):\n    global _c\n    if _c is not None and _c[0]() is x:\n        return _c[1]\n    r = x.sum()\n"
                   "    _c = (ref(x), r)\n    return r\n").body[0]
    if len(_identity_memo_hits(ex, {"_c"}, None)) < 1:
        raise AnalysisError("identity-memo lint lost its positive example")
    return out


def column_loop_obligations(prog, rule, rel_, fnames):
    """One obligation per per-column loop of the named module functions: a result table allocated with N columns and filled by
    `for i in <range>: table[:, i] = ...` is filled for EVERY column - the range is range(N) with the very N of the allocation (locals
    inlined), starting at 0.  A column left out keeps the zeros of the allocation."""
    from ..term import Resolver
    out = []
    mi = prog.module(rel_)
    for fname in fnames:
        fn = mi.functions.get(fname)
        if fn is None:
            raise AnalysisError(f"anchor vanished: {rel_}:{fname}")
        rz = Resolver(fn, prog, mi)
        allocs = {}
        for st in ast.walk(fn):
            if isinstance(st, ast.Assign) and len(st.targets) == 1 and isinstance(st.targets[0], ast.Name) and isinstance(st.value, ast.Call) \
                    and U(st.value.func) in ("zeros", "empty", "ones", "full") and st.value.args \
                    and isinstance(st.value.args[0], (ast.List, ast.Tuple)) and len(st.value.args[0].elts) == 2:
                allocs[st.targets[0].id] = (st, U(rz.term(st.value.args[0].elts[1], st)))
        for lp in [l for l in ast.walk(fn) if isinstance(l, ast.For)]:
            # the index variable and the number of iterations: `for i in range(N)`, `for i, .. in enumerate(X.T)` / `enumerate(zip(X.T, Y.T))`
            it = lp.iter
            iv, counts, shown = None, set(), U(it)
            if isinstance(lp.target, ast.Name) and isinstance(it, ast.Call) and U(it.func) == "range" and not it.keywords:
                iv = lp.target.id
                if len(it.args) == 1:
                    counts = {U(rz.term(it.args[0], lp))}
            elif isinstance(lp.target, ast.Tuple) and lp.target.elts and isinstance(lp.target.elts[0], ast.Name) \
                    and isinstance(it, ast.Call) and U(it.func) == "enumerate" and len(it.args) == 1 and not it.keywords:
                iv = lp.target.elts[0].id
                srcs = it.args[0].args if isinstance(it.args[0], ast.Call) and U(it.args[0].func) == "zip" else [it.args[0]]
                for x in srcs:
                    if isinstance(x, ast.Attribute) and x.attr == "T":
                        counts.add(U(rz.term(x.value, lp)) + ".shape[1]")
            if iv is None:
                continue
            stores = []
            for b_ in lp.body:
                for n in ast.walk(b_):
                    if isinstance(n, ast.Assign):
                        for t in n.targets:
                            stores.extend(t.elts if isinstance(t, (ast.Tuple, ast.List)) else [t])
            filled = sorted({t.value.id for t in stores if isinstance(t, ast.Subscript) and isinstance(t.value, ast.Name) and t.value.id in allocs
                             and isinstance(t.slice, ast.Tuple) and len(t.slice.elts) == 2 and U(t.slice.elts[1]) == iv})
            if not filled:
                continue
            why = ""
            if not counts:
                why = f"the column loop runs over `{shown}`, which is not recognised as one iteration per column"
            else:
                bad = [a for a in filled if allocs[a][1] not in counts]
                if bad:
                    why = (f"the column loop makes {' / '.join(sorted(counts))} iterations but `{bad[0]}` was allocated with {allocs[bad[0]][1]} columns")
            out.append(struct_ob(rule, f"{mi.name}.{fname}[{','.join(filled)}]", not why,
                                 (why + ": the columns left out keep the zeros of the allocation") if why else "", rel_, lp.lineno,
                                 slots={"tables": filled}))
    return out


def as_augassign(node):
    """`x = x + e`, `x = e + x`, `x = x * e`, `x = e * x`, `x = x - e`, `x = x / e` on a plain name, read as the update `x op= e` for
    rules that classify updates of a running variable (the VALUE of x afterwards is the same; whether the old array object is
    re-used is the ownership engine's question, which looks at the original statement)."""
    if isinstance(node, ast.Assign) and len(node.targets) == 1 and isinstance(node.targets[0], ast.Name) and isinstance(node.value, ast.BinOp):
        x, v = node.targets[0].id, node.value
        if isinstance(v.left, ast.Name) and v.left.id == x and isinstance(v.op, (ast.Add, ast.Mult, ast.Sub, ast.Div)):
            return ast.copy_location(ast.AugAssign(target=ast.Name(id=x, ctx=ast.Store()), op=v.op, value=v.right), node)
        if isinstance(v.right, ast.Name) and v.right.id == x and isinstance(v.op, (ast.Add, ast.Mult)):
            return ast.copy_location(ast.AugAssign(target=ast.Name(id=x, ctx=ast.Store()), op=v.op, value=v.left), node)
    return node


def _scalar_attr(prog, path):
    """The last attribute of the path is, in every class that assigns it in a constructor, a plain number (x.size, len(..), a literal,
    int(..) / float(..)): `n = obj.count; n += 1` re-binds a local and updates nothing."""
    attr = path.rsplit(".", 1)[-1].rstrip("[]")
    vals = []
    for ci in prog.classes.values() if isinstance(prog.classes, dict) else prog.classes:
        init = ci.methods.get("__init__")
        if init is None:
            continue
        for st in ast.walk(init):
            if isinstance(st, ast.Assign):
                for t in st.targets:
                    if isinstance(t, ast.Attribute) and t.attr == attr and isinstance(t.value, ast.Name):
                        vals.append(st.value)
    def scalar(v):
        if isinstance(v, ast.Constant):
            return isinstance(v.value, (int, float, bool, str))
        if isinstance(v, ast.Attribute) and v.attr in ("size", "ndim"):
            return True
        if isinstance(v, ast.Call) and U(v.func) in ("len", "int", "float", "bool", "str"):
            return True
        if isinstance(v, ast.BinOp):
            return scalar(v.left) and scalar(v.right)
        return False
    # a None placeholder says nothing about what is stored later
    vals = [v for v in vals if not (isinstance(v, ast.Constant) and v.value is None)]
    return bool(vals) and all(scalar(v) for v in vals)


def borrow(prog, tier, module_name, rules, new_rule, why):
    """Obligations of another property's rule module that are also necessary conditions of this property (one clause shared by
    two properties, decided once): re-labelled `new_rule`; the original rule name is kept in the detail.  Must be called before
    the borrowing module builds its own algebraic state (both reset the atom tables)."""
    import importlib
    from .. import anf
    mod = importlib.import_module(f"sa.rules.{module_name}")
    obs, _, _ = mod.run(prog, tier)
    out = []
    for o in obs:
        if o.rule in rules:
            o.slots = dict(o.slots or {})
            o.slots["borrowed_from"] = f"{module_name}.{o.rule}"
            o.slots["shared_clause"] = why
            o.detail = (o.detail + " " if o.detail else "") + f"[{module_name}.{o.rule}]"
            o.rule = new_rule
            out.append(o)
    anf.reset()
    return out


def invert_hazard_obligations(prog, rule, rels):
    """One obligation per source file: no `~(comparison)` whose operands may all be plain Python numbers (lints.invert_of_python_bool)."""
    from .. import lints
    from ..model import iter_functions
    from ..term import Resolver
    out = []
    for rel_ in rels:
        mi = prog.module(rel_)
        numpy_names = {k for k, v in mi.imports.items() if str(v).startswith(("numpy", "scipy"))}
        hits, n_fn, n_inv = [], 0, 0
        for qn, fn in iter_functions(mi.tree):
            n_fn += 1
            n_inv += sum(1 for x in ast.walk(fn) if isinstance(x, ast.UnaryOp) and isinstance(x.op, ast.Invert))
            try:
                rz = Resolver(fn, prog, mi)
            except Exception:
                rz = None
            for line, text, why in lints.invert_of_python_bool(fn, rz, numpy_names):
                hits.append((qn, line, text, why))
        msg = ""
        if hits:
            qn, line, text, why = hits[0]
            msg = f"`{text}` in {qn} (line {line}): {why}" + (f" (+{len(hits) - 1} more)" if len(hits) > 1 else "")
        out.append(struct_ob(rule, rel_, not hits, msg, rel_, hits[0][1] if hits else 0,
                             slots={"functions_scanned": n_fn, "inversions": n_inv, "hits": len(hits)}))
    ex = ast.parse("def f(self):\n    std = self.var ** 0.5 / self.num\n    if ~(self.mu - std < self.rate < self.mu + std):\n        pass\n").body[0]
    if not lints.invert_of_python_bool(ex, Resolver(ex)):
        raise AnalysisError("invert-of-bool lint lost its positive example")
    return out


def picklable_state_obligations(prog, rule, classes):
    """One obligation per class whose instances are sent between processes (a chain and everything it holds is pickled on its way to
    a pool worker and back, and through the tempering pipes): no instance attribute is bound to something pickle cannot
    re-create by name - a lambda, a function defined inside a method, or a name-mangled private function / method
    (`self.__f`: pickle looks `__f` up on the class, where it is called `_Class__f`)."""
    from ..model import qual
    out = []
    module_lambdas = {}
    for ci in classes:
        if ci.module.relpath not in module_lambdas:
            module_lambdas[ci.module.relpath] = {st.targets[0].id for st in ci.module.tree.body if isinstance(st, ast.Assign) and len(st.targets) == 1
                                                 and isinstance(st.targets[0], ast.Name) and isinstance(st.value, ast.Lambda)}
    for ci in classes:
        hits = []
        for mname, fn in ci.methods.items():
            if not fn.args.args:
                continue
            sn = fn.args.args[0].arg
            local_defs = {n.name for n in ast.walk(fn) if isinstance(n, (ast.FunctionDef, ast.AsyncFunctionDef)) and n is not fn}
            local_lambdas = {st.targets[0].id for st in ast.walk(fn) if isinstance(st, ast.Assign) and isinstance(st.targets[0], ast.Name)
                             and isinstance(st.value, ast.Lambda)}
            for st in ast.walk(fn):
                if not isinstance(st, ast.Assign):
                    continue
                for t in st.targets:
                    if not (isinstance(t, ast.Attribute) and isinstance(t.value, ast.Name) and t.value.id == sn):
                        continue
                    vals = [st.value.body, st.value.orelse] if isinstance(st.value, ast.IfExp) else [st.value]
                    for v in vals:
                        why = None
                        if isinstance(v, ast.Lambda):
                            why = "a lambda"
                        elif isinstance(v, ast.Name) and v.id in local_defs | local_lambdas:
                            why = f"the local function `{v.id}`"
                        elif isinstance(v, ast.Name) and v.id in module_lambdas.get(ci.module.relpath, ()):
                            why = f"the module-level name `{v.id}`, which is bound to a lambda (pickle finds no function called `<lambda>` in the module)"
                        elif isinstance(v, ast.Attribute) and isinstance(v.value, ast.Name) and v.value.id in (sn, ci.name, "cls") \
                                and v.attr.startswith("__") and not v.attr.endswith("__") \
                                and (v.attr in ci.methods or any(v.attr in c.methods for c in prog.mro(ci))):
                            why = f"the name-mangled private method `{v.attr}` (pickled by the name `{v.attr}`, which the class knows as `_{ci.name}{v.attr}`)"
                        if why:
                            hits.append((st.lineno, f"{sn}.{t.attr}", why, mname))
        msg = ""
        if hits:
            line, attr, why, mname = hits[0]
            msg = (f"{ci.name}.{mname} binds `{attr}` to {why}: an object holding it cannot be pickled, so a chain configured this way cannot be "
                   f"sent to a pool worker or handed back through a pipe" + (f" (+{len(hits) - 1} more attributes)" if len(hits) > 1 else ""))
        out.append(struct_ob(rule, f"{ci.module.name}.{ci.name}", not hits, msg, ci.module.relpath, hits[0][0] if hits else ci.node.lineno,
                             slots={"methods_scanned": len(ci.methods), "hits": len(hits)}))
    return out


def call_order_obligations(prog, rule, rels):
    """One obligation per source file: no call to a function / method / constructor of the repository passes two of the callee's
    own parameter names in each other's positions (`f(b, a)` into `def f(a, b)`): forwarding a value under the name of one
    parameter into the slot of another, while that other one goes into the first's slot, is a swap (the typical victims are
    `super().__init__(inv_mass, n_parameters)` and kernel(u, v, theta) calls, where both orders run without an error)."""
    from ..model import iter_functions
    out = []
    for rel_ in rels:
        mi = prog.module(rel_)
        hits, n_calls = [], 0
        for cls_name, ci in [(None, None)] + [(c.name, c) for c in mi.classes.values()]:
            fns = ci.methods.items() if ci is not None else mi.functions.items()
            for mname, fn in fns:
                sn = fn.args.args[0].arg if (ci is not None and fn.args.args) else None
                local_names = {a.arg for a in fn.args.args + fn.args.kwonlyargs} | {n.id for n in ast.walk(fn) if isinstance(n, ast.Name)
                                                                                     and isinstance(n.ctx, ast.Store)}
                for call in [n for n in ast.walk(fn) if isinstance(n, ast.Call)]:
                    callee = None
                    f = call.func
                    if isinstance(f, ast.Attribute) and isinstance(f.value, ast.Call) and U(f.value.func) == "super" and ci is not None:
                        mro = prog.mro(ci)
                        for c2 in mro[1:]:
                            if f.attr in c2.methods:
                                callee = c2.methods[f.attr]
                                break
                        skip = 1
                    elif isinstance(f, ast.Attribute) and isinstance(f.value, ast.Name) and f.value.id == sn and ci is not None:
                        c2, callee = prog.find_method(ci, f.attr)
                        skip = 1 if callee is not None and not any(U(d) == "staticmethod" for d in callee.decorator_list) else 0
                    elif isinstance(f, ast.Name):
                        if f.id in mi.functions:
                            callee, skip = mi.functions[f.id], 0
                        elif f.id in prog.classes and "__init__" in prog.classes[f.id].methods:
                            callee, skip = prog.classes[f.id].methods["__init__"], 1
                        else:
                            q = mi.imports.get(f.id, "")
                            if q.startswith("inference."):
                                modname, _, nm = q.rpartition(".")
                                m2 = prog.modules.get(modname)
                                if m2 is not None and nm in m2.functions:
                                    callee, skip = m2.functions[nm], 0
                                elif nm in prog.classes and "__init__" in prog.classes[nm].methods:
                                    callee, skip = prog.classes[nm].methods["__init__"], 1
                    if callee is None or any(isinstance(a, ast.Starred) for a in call.args):
                        continue
                    n_calls += 1
                    params = [a.arg for a in callee.args.args][skip:]
                    names = [a.id if isinstance(a, ast.Name) else None for a in call.args]
                    for i, a in enumerate(names):
                        if a is None or i >= len(params) or a == params[i] or a not in params:
                            continue
                        j = params.index(a)
                        if j < len(names) and names[j] == params[i] and i < j:
                            hits.append((call.lineno, U(call)[:100], f"`{a}` goes into the slot of `{params[i]}` and `{names[j]}` into the slot "
                                                                      f"of `{params[j]}` ({callee.name}({', '.join(params)}))", f"{cls_name + '.' if cls_name else ''}{mname}"))
                        elif params[i] in local_names and not (j < len(names) and names[j] == params[i]) and j < len(names) and names[j] == a:
                            # one-sided: the caller holds a value named like the slot's parameter, yet passes - twice - the value named
                            # like ANOTHER parameter of the callee (`super().__init__(n, n)` into `__init__(inv_mass, n)`)
                            hits.append((call.lineno, U(call)[:100], f"`{a}` is passed both in its own slot and in the slot of `{params[i]}`, while the "
                                                                      f"caller's own `{params[i]}` is not passed ({callee.name}({', '.join(params)}))",
                                         f"{cls_name + '.' if cls_name else ''}{mname}"))
        msg = ""
        if hits:
            line, text, why, where = hits[0]
            msg = f"`{text}` in {where} (line {line}): {why}" + (f" (+{len(hits) - 1} more)" if len(hits) > 1 else "")
        out.append(struct_ob(rule, rel_, not hits, msg, rel_, hits[0][0] if hits else 0, slots={"calls_resolved": n_calls, "hits": len(hits)}))
    return out


def final_state_obligations(prog, rule, cname, rel, sources, method="__init__", tier="F"):
    from ..model import qual
    """Inside a constructor, an attribute derived from another one is derived from its FINAL value: no statement that defines
    self.B by reading self.A may come before a later (re)assignment of self.A - `self.A = ..`, `self.A[..] = ..`, `self.A op= ..` -
    unless B itself is assigned again afterwards, or B is a step on the way to A's final value (A's later write reads it).  `sources` names the
    attributes A whose final value the results must be computed from.  (A re-assignment that reads its own attribute, `self.h = refine(self.h)`, is
    of course allowed.)  Statement order is the order of the (canonical) text; both arms of an `if` count."""
    ci = prog.cls(cname)
    c, fn = prog.find_method(ci, method)
    if fn is None or not fn.args.args:
        raise AnalysisError(f"anchor vanished: {cname}.{method}")
    sn = fn.args.args[0].arg
    order = {}
    k = [0]

    def number(stmts):
        for st in stmts:
            k[0] += 1
            order[id(st)] = k[0]
            for nm in ("body", "orelse", "finalbody"):
                number(getattr(st, nm, []) or [])
            for h in getattr(st, "handlers", []) or []:
                number(h.body)
    number(fn.body)
    writes, defs = {}, []
    for st in ast.walk(fn):
        if id(st) not in order or not isinstance(st, (ast.Assign, ast.AugAssign)):
            continue
        tgts = st.targets if isinstance(st, ast.Assign) else [st.target]
        for t in tgts:
            for el in (t.elts if isinstance(t, (ast.Tuple, ast.List)) else [t]):
                b = el
                while isinstance(b, ast.Subscript):
                    b = b.value
                if isinstance(b, ast.Attribute) and isinstance(b.value, ast.Name) and b.value.id == sn:
                    writes.setdefault(b.attr, []).append(order[id(st)])
                    reads = {x.attr for x in ast.walk(st.value) if isinstance(x, ast.Attribute) and isinstance(x.value, ast.Name)
                             and x.value.id == sn and isinstance(x.ctx, ast.Load)}
                    # through the receiver's own methods: self.norm(..) reads what norm reads
                    for cl in ast.walk(st.value):
                        if isinstance(cl, ast.Call) and isinstance(cl.func, ast.Attribute) and isinstance(cl.func.value, ast.Name) \
                                and cl.func.value.id == sn:
                            c2, f2 = prog.find_method(ci, cl.func.attr)
                            if f2 is not None and f2.args.args:
                                s2 = f2.args.args[0].arg
                                reads |= {x.attr for x in ast.walk(f2) if isinstance(x, ast.Attribute) and isinstance(x.value, ast.Name)
                                          and x.value.id == s2 and isinstance(x.ctx, ast.Load)}
                    defs.append((b.attr, order[id(st)], reads, st))
    bad = []
    # attributes a later write of A itself (transitively) reads are steps of an iteration towards A's final value, not results
    feeds = {}
    for attr, pos, reads, st in defs:
        feeds.setdefault(attr, set()).update(reads)
    for attr, pos, reads, st in defs:
        for a in sorted(reads):
            if a == attr or a not in sources:
                continue
            later = [w for w in writes.get(a, []) if w > pos]
            seen, todo = set(), [a]
            while todo:
                x = todo.pop()
                for y in feeds.get(x, ()):
                    if y not in seen:
                        seen.add(y)
                        todo.append(y)
            if attr in seen:
                continue
            if later and not any(w2 > max(later) for w2 in writes.get(attr, []) if w2 != pos):
                bad.append(f"self.{attr} (line {st.lineno}: `{U(st)[:70]}`) is computed from self.{a} before self.{a} takes its final value")
    return [struct_ob(rule, qual(c, fn) + "[final-state]", not bad, "; ".join(sorted(set(bad))[:2]), rel, fn.lineno,
                      slots={"attributes_written": len(writes), "derived_definitions": len(defs)}, tier=tier)]
