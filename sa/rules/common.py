"""Helpers shared by the rule modules."""
from __future__ import annotations
import ast
from ..report import Ob, AnalysisError
from ..anf import R, Unsupported
from .. import anf


def rel(ci_or_mi):
    return getattr(ci_or_mi, "module", ci_or_mi).relpath


def formula_ob(rule, construct, got, want, file, line, what="", tier="F", detail=""):
    """Obligation got == want as normal forms."""
    ok = isinstance(got, R) and isinstance(want, R) and got.eq(want)
    msg = ""
    if not ok:
        diff = ""
        try:
            diff = f"; difference: {got - want}"
        except Exception:
            pass
        def cut(x, n=360):
            x = str(x)
            return x if len(x) <= n else x[:n] + " ...[truncated]"
        msg = f"{what}: code has  {cut(got)}  but the reference form is  {cut(want)}{cut(diff, 300)}"
    return Ob(rule, construct, ok, detail=detail, msg=msg, file=file, line=line, tier=tier,
              slots={"what": what, "code_form": str(got)[:400], "reference_form": str(want)[:400]})


def struct_ob(rule, construct, ok, msg, file, line, slots=None, tier="S", detail="", nontrivial=True):
    return Ob(rule, construct, ok, detail=detail, msg="" if ok else msg, file=file, line=line,
              tier=tier, slots=slots or {}, nontrivial=nontrivial)


def guard(fn):
    """Run fn(); an Unsupported construct becomes an AnalysisError (exit 2)."""
    try:
        return fn()
    except Unsupported as e:
        raise AnalysisError(f"construct outside the modelled algebra: {e}")


def returns(fn):
    return [n for n in ast.walk(fn) if isinstance(n, ast.Return)]


def last_return(fn):
    for st in reversed(fn.body):
        if isinstance(st, ast.Return):
            return st
    return None


def single_sym(r):
    """Name of the sym if r is exactly one sym atom, else None."""
    if not isinstance(r, R):
        return None
    st = r.single_term()
    if st and st[0] == 1 and len(st[1]) == 1 and st[1][0][1] == 1 and st[1][0][0][0] == "sym":
        return st[1][0][0][1]
    return None


def gradient_lists_in_order(fn, names):
    """Every loop / comprehension that walks one of the gradient lists iterates the bare list (no slicing,
    reversal or sorting), so that entry k of the result belongs to hyper-parameter k.  Returns problems."""
    problems = []
    for n in ast.walk(fn):
        its = []
        if isinstance(n, ast.For):
            its.append(n.iter)
        elif isinstance(n, (ast.ListComp, ast.GeneratorExp)):
            its.extend(g.iter for g in n.generators)
        for it in its:
            used = {x.id for x in ast.walk(it) if isinstance(x, ast.Name)} & set(names)
            if used and not isinstance(it, ast.Name):
                problems.append(f"`{ast.unparse(it)}` (line {it.lineno}) re-orders or subsets the gradient list {sorted(used)}")
    return problems
