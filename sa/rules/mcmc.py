"""Facts about the sampler classes, re-derived from the current tree on every run:
stores read by the getters, step functions, and the event classifier used by the
path rules of C01 / C03 / C14 / C15."""
from __future__ import annotations
import ast
from .common import U
from ..report import AnalysisError
from ..flow import Enumerator, RETURN, RAISE, count, fmt

SAMPLERS = ["MetropolisChain", "GibbsChain", "PcaChain", "HamiltonianChain", "EnsembleSampler"]


def burn_thin_slices(fn):
    """Subscript nodes whose slice is [<burn param>::<thin param>] (any spelling of lower/step)."""
    out = []
    for n in ast.walk(fn):
        if isinstance(n, ast.Subscript):
            sls = n.slice.elts if isinstance(n.slice, ast.Tuple) else [n.slice]
            if sls and isinstance(sls[0], ast.Slice) and not (sls[0].lower is None and sls[0].upper is None and sls[0].step is None):
                out.append(n)             # (a full slice `:` in front of a column pick - X[:, index] - selects no rows)
    return out


class Stores:
    def __init__(self, S, P, kind):
        self.S, self.P, self.kind = S, P, kind   # kind: 'params' | 'attr'

    def __repr__(self):
        return f"S={self.S} P={self.P}"


def derive_stores(prog, cname):
    """Sample store and probability store of a sampler, read off its getters."""
    c, gp = prog.method(cname, "get_probabilities")
    c2, gs = prog.method(cname, "get_sample")
    P = S = None
    kind = "attr"
    def unconv(v):
        # array(self.X)[b::t] reads the store X like array(self.X[b::t])
        while isinstance(v, ast.Call) and isinstance(v.func, ast.Name) and v.func.id in ("array", "asarray", "list", "tuple") and len(v.args) == 1:
            v = v.args[0]
        return v
    for n in burn_thin_slices(gp):
        v = unconv(n.value)
        if isinstance(v, ast.Attribute) and isinstance(v.value, ast.Name) and v.value.id == "self":
            P = v.attr
    # a sample getter that is assembled from another getter of the class reads that getter's store
    gs_fns = [gs]
    ci_ = prog.cls(cname)
    for call in ast.walk(gs):
        if isinstance(call, ast.Call) and isinstance(call.func, ast.Attribute) and isinstance(call.func.value, ast.Name) \
                and call.func.value.id == "self" and call.func.attr.startswith("get_"):
            c3, f3 = prog.find_method(ci_, call.func.attr)
            if f3 is not None and f3 is not gs:
                gs_fns.append(f3)
    for n in [x for f_ in gs_fns for x in burn_thin_slices(f_)]:
        v = unconv(n.value)
        if isinstance(v, ast.Attribute) and isinstance(v.value, ast.Subscript) and isinstance(v.value.value, ast.Attribute) \
                and isinstance(v.value.value.value, ast.Name) and v.value.value.value.id == "self":
            # self.params[index].samples
            S = (v.value.value.attr, v.attr)
            kind = "params"
        elif isinstance(v, ast.Attribute) and isinstance(v.value, ast.Name):
            if v.value.id == "self":
                S = v.attr
            else:
                # p.samples with p ranging over self.params
                for comp in ast.walk(gs):
                    if isinstance(comp, ast.ListComp):
                        g = comp.generators[0]
                        if U(g.target) == v.value.id and U(g.iter).startswith("self."):
                            S = (U(g.iter)[5:], v.attr)
                            kind = "params"
    if P is None or S is None:
        raise AnalysisError(f"cannot derive stores of {cname} from its getters (S={S}, P={P})")
    return Stores(S, P, kind)


def step_functions(prog, cname):
    """[(ClassInfo, FunctionDef)] that perform one state update for this sampler."""
    ci = prog.cls(cname)
    c, fn = prog.find_method(ci, "take_step")
    if fn is not None:
        return [(c, fn)]
    out = []
    for m in ("__advance_walker",):
        c, fn = prog.find_method(ci, m)
        if fn is not None:
            out.append((c, fn))
    return out


def make_classifier(stores, lenattr="chain_length"):
    S, P = stores.S, stores.P

    def compound(st):
        if stores.kind == "params" and isinstance(st, ast.For):
            it = U(st.iter)
            if f"self.{S[0]}" in it:
                calls = [n for n in ast.walk(st) if isinstance(n, ast.Call) and isinstance(n.func, ast.Attribute)
                         and n.func.attr == "add_sample"]
                if len(calls) == 1 and len(st.body) == 1:
                    src = ""
                    if isinstance(st.iter, ast.Call) and U(st.iter.func) == "zip":
                        others = [U(a) for a in st.iter.args if U(a) != f"self.{S[0]}"]
                        src = others[0] if others else ""
                    # the appended value must be the loop element paired with the parameter
                    tgt = st.target
                    val = U(calls[0].args[0]) if calls[0].args else ""
                    names = [U(e) for e in tgt.elts] if isinstance(tgt, ast.Tuple) else [U(tgt)]
                    recv = U(calls[0].func.value)
                    paired = val in names and recv in names and val != recv
                    if not paired and isinstance(st.iter, ast.Call) and U(st.iter.func) == "enumerate" and len(names) == 2 \
                            and len(st.iter.args) == 1 and U(st.iter.args[0]) == f"self.{S[0]}" and recv == names[1] \
                            and calls[0].args and isinstance(calls[0].args[0], ast.Subscript) and U(calls[0].args[0].slice) == names[0] \
                            and isinstance(calls[0].args[0].value, ast.Name):
                        # for i, p in enumerate(self.params): p.add_sample(X[i])  -  parameter i gets component i of X
                        src, paired = calls[0].args[0].value.id, True
                    if not paired and isinstance(st.iter, ast.Call) and U(st.iter.func) == "range" and len(names) == 1 and calls[0].args \
                            and isinstance(calls[0].args[0], ast.Subscript) and U(calls[0].args[0].slice) == names[0] \
                            and recv == f"self.{S[0]}[{names[0]}]" and isinstance(calls[0].args[0].value, ast.Name):
                        src, paired = calls[0].args[0].value.id, True
                    return [("APPEND_S", st.lineno, src if paired else f"?{val}")]
        return None

    def classify(node):
        ev = []
        for n in ast.walk(node):
            if isinstance(n, ast.Call) and isinstance(n.func, ast.Attribute) and n.func.attr == "append":
                tgt = U(n.func.value)
                if tgt == f"self.{P}":
                    ev.append(("APPEND_P", n.lineno, U(n.args[0])))
                elif stores.kind == "attr" and tgt == f"self.{S}":
                    ev.append(("APPEND_S", n.lineno, U(n.args[0])))
        if isinstance(node, ast.AugAssign) and U(node.target) == f"self.{lenattr}" \
                and isinstance(node.op, ast.Add) and U(node.value) == "1":
            ev.append(("INC_LEN", node.lineno, ""))
        # the length re-read from the store itself: chain_length = len(self.<P>)  (equal to the stored count whatever was appended)
        if isinstance(node, ast.Assign) and len(node.targets) == 1 and U(node.targets[0]) == f"self.{lenattr}" \
                and U(node.value) in (f"len(self.{P})", f"self.{P}.__len__()"):
            ev.append(("SET_LEN", node.lineno, ""))
        return ev
    return classify, compound


def self_inliner(prog, ci):
    def inline(call):
        f = call.func
        if isinstance(f, ast.Attribute) and isinstance(f.value, ast.Name) and f.value.id == "self":
            c, fn = prog.find_method(ci, f.attr)
            return fn
        return None
    return inline


def last_def(fn, name, before_line):
    """The textually last plain assignment `name = value` in fn before a line."""
    best = None
    for st in ast.walk(fn):
        if isinstance(st, ast.Assign) and st.lineno < before_line:
            for t in st.targets:
                for tt in ([t] if not isinstance(t, ast.Tuple) else t.elts):
                    if isinstance(tt, ast.Name) and tt.id == name:
                        if best is None or st.lineno > best.lineno:
                            best = st
    return best


WRAPPERS = {"copy", "deepcopy", "array", "float", "asarray"}


def unwrap(expr):
    """Strip value-preserving wrappers copy(x) / deepcopy(x) / array(x) / x.copy()."""
    while True:
        if isinstance(expr, ast.Call) and isinstance(expr.func, ast.Name) and expr.func.id in WRAPPERS \
                and len(expr.args) == 1 and not expr.keywords:
            expr = expr.args[0]
        elif isinstance(expr, ast.Call) and isinstance(expr.func, ast.Attribute) and expr.func.attr == "copy" \
                and not expr.args:
            expr = expr.func.value
        else:
            return expr


def resolve_name(fn, expr, before_line, hops=4):
    """Follow `x = copy(y)` style definitions of a Name back to its origin expression."""
    expr = unwrap(expr)
    while hops > 0 and isinstance(expr, ast.Name):
        d = last_def(fn, expr.id, before_line)
        if d is None:
            break
        v = unwrap(d.value)
        if isinstance(v, ast.Name):
            expr = v
            before_line = d.lineno
            hops -= 1
        else:
            break
    return expr


def posterior_calls(node):
    return [n for n in ast.walk(node) if isinstance(n, ast.Call) and U(n.func) == "self.posterior"]
