"""C02 - GP regression returns the exact GP posterior (tier M + S).

Decides: the cached weights and the three prediction paths are the closed form and agree
with each other; noise kernels' cross-covariance has the shape of a kernel result in every
dimension; both error inputs reach one `sig` and the converted array is the one used; every
public predictor normalises its query points.
Does not decide: numerical accuracy, variance bounds, order independence.
"""
from __future__ import annotations
import ast
from fractions import Fraction
from ..model import qual
from ..symx import Expander, TupleV, ListV
from ..ncf import M
from .. import ncf, anf
from ..anf import R, Unsupported
from .common import cancellation_obligations, memo_obligations, dtype_hazard_obligations, path_statements, refresh_obligation, default_instance_obligations, struct_ob, guard, last_return, U
from .gpm import gp_expander, refs, mob, REL
from ..report import AnalysisError
from ..term import Resolver, pmatch

COV = "inference/gp/covariance.py"
FLOORS = {"kernel-siblings-agree": 11, "difference-before-square": 2, "float-arithmetic": 1, "state-refreshed": 1, "components-not-shared": 1, "posterior-closed-form": 6, "factor-of": 1, "triangular-solves": 1, "kernel-result-shape": 2,
          "error-input-typestate": 3, "query-normalisation": 4, "axis-order": 2}


def run(prog, tier):
    # K_qx / K_qq come from a kernel's pairwise call, K_xx from its builder: the closed form needs them to be the same kernel -
    # the clause C02 shares with C10, decided there (builder = pairwise + declared diagonal; change-point recurrences agree;
    # composites add each component on its own slice)
    from .common import borrow
    shared = borrow(prog, tier, "C10", {"builder-vs-pairwise", "changepoint-siblings", "composite-structure", "pairwise-axes"}, "kernel-siblings-agree",
                    "the posterior formula pairs K_xx (builder) with K_qx, K_qq (pairwise call) of the same kernel")
    # ... and m(x) (build_mean, inside alpha) with m(q) (the pairwise call of the same mean function): one mean function, not two
    shared += borrow(prog, tier, "C10", {"mean-sibling"}, "mean-siblings-agree",
                     "the posterior formula uses one mean function m: build_mean on the data and __call__ at the query must be the same function")
    obs, info = [], []
    obs.extend(shared)
    problems = []

    # ---------------------------------------------------------------- error inputs (first: a definite violation here stands even
    # when the matrix algebra below cannot follow a restructured error model)
    c, ce = prog.method("GpRegressor", "check_error_data")
    early = _error_inputs(prog, c, ce)
    from .axrules import gp_axis_obligations
    early = early + gp_axis_obligations(prog, "axis-order", ["__call__", "build_posterior"])
    from .gpm import routing_obligations
    early = early + [o for o in routing_obligations(prog, "GpRegressor", "hyperparameter-routing", REL) if not any(k_ in o.construct for k_ in ("likelihood", "gradient", "spatial_derivatives", "loo_"))]
    obs.extend(early)
    try:
        return _run_rest(prog, tier, obs, info, problems)
    except AnalysisError:
        if any(not o.ok for o in early):
            return obs, {}, {"explanation": "the error model is not the caller's; remaining rules not evaluated"}
        raise


def _run_rest(prog, tier, obs, info, problems):
    # ---------------------------------------------------------------- alpha, L
    ci, ex = gp_expander(prog)
    c, sh = prog.method("GpRegressor", "set_hyperparameters")
    alpha = guard(lambda: ex.self_attr("alpha", {}))
    r = refs()
    obs.append(mob("posterior-closed-form", qual(c, sh) + "[alpha]", alpha, r["alpha"], sh.lineno,
                   "alpha = L^-T L^-1 (y - mu)"))
    okK = "L" in ex.chol and ex.chol["L"].eq(r["Kxx"])
    obs.append(struct_ob("factor-of", qual(c, sh), okK,
                         f"L must be the Cholesky factor of build_covariance(theta) + sig; it factorises {ex.chol.get('L')}",
                         REL, sh.lineno, tier="M"))
    problems += ex.problems

    # ---------------------------------------------------------------- __call__
    c, call = prog.method("GpRegressor", "__call__")
    ci, ex = gp_expander(prog, scalar_mean=True)
    ex.on_for = lambda node, env: "once"
    ret = last_return(call)
    bret = None
    for pt in ("(array(_m), sqrt(abs(array(_v))))", "(array(_m), sqrt(absolute(array(_v))))", "(array(_m), abs(array(_v)) ** 0.5)"):
        bret = bret or (pmatch(ret.value, pt) if ret is not None else None)
    if bret is None:
        raise AnalysisError("anchor vanished: GpRegressor.__call__ does not return (array(means), sqrt(abs(array(variances))))")
    n_mean, n_var = bret["_m"], bret["_v"]
    env = {call.args.args[1].arg: M.atom("points", 2), n_mean: ListV([]), n_var: ListV([])}
    guard(lambda: ex.exec_block([s for s in call.body if not isinstance(s, ast.Return)], env))
    problems += ex.problems
    r = refs()
    mu_q, errs = env.get(n_mean), env.get(n_var)
    if not (isinstance(mu_q, ListV) and len(mu_q.items) == 1 and isinstance(errs, ListV) and len(errs.items) == 1):
        raise AnalysisError("anchor vanished: per-point mean / variance appends in GpRegressor.__call__")
    mean_ref = ncf.scalarise(ncf._mul(r["Kqx"].terms, r["alpha"].terms)) + M.atom("mq", 0)
    var_ref = ncf.scalarise(r["Kqq"].terms) - ncf.scalarise(
        ncf._mul(ncf._mul(r["Kqx"].terms, r["Kinv"].terms), r["Kqx"].T().terms))
    obs.append(mob("posterior-closed-form", qual(c, call) + "[mean]", mu_q.items[0], mean_ref, call.lineno,
                   "point-wise mean = K_qx alpha + m(q)"))
    obs.append(mob("posterior-closed-form", qual(c, call) + "[variance]", errs.items[0], var_ref, call.lineno,
                   "point-wise variance = K_qq - K_qx K^-1 K_xq"))
    ok = True      # the shape of the return was matched above
    obs.append(struct_ob("posterior-closed-form", qual(c, call) + "[return]", ok,
                         f"must return (means, sqrt(|variances|)); returns `{U(ret.value)}`", REL, ret.lineno))

    # ---------------------------------------------------------------- build_posterior
    c, bp = prog.method("GpRegressor", "build_posterior")
    results = {}
    for arm in ("body", "orelse"):
        ci, ex = gp_expander(prog, scalar_mean=False)
        ex.on_if = lambda node, env, arm=arm: arm
        res = guard(lambda: ex.run(bp.body, {bp.args.args[1].arg: M.atom("points", 2), "mean_only": M.scalar(0)}))
        problems += ex.problems
        results[arm] = res
    r = refs()
    mean_ref = r["Kqx"].matmul(r["alpha"]) + M.atom("mq", 1)
    cov_ref = r["Kqq"] - r["Kqx"].matmul(r["Kinv"]).matmul(r["Kqx"].T())
    full = results["orelse"]
    if not (isinstance(full, TupleV) and len(full.items) == 2):
        raise AnalysisError("build_posterior does not return (mean, covariance) on the full branch")
    obs.append(mob("posterior-closed-form", qual(c, bp) + "[mean]", full.items[0], mean_ref, bp.lineno,
                   "joint mean = K_qx alpha + m(q)"))
    obs.append(mob("posterior-closed-form", qual(c, bp) + "[covariance]", full.items[1], cov_ref, bp.lineno,
                   "joint covariance = K_qq - K_qx K^-1 K_xq"))
    obs.append(mob("posterior-closed-form", qual(c, bp) + "[mean_only]", results["body"], mean_ref, bp.lineno,
                   "mean-only path = mean of the full path"))
    obs.append(struct_ob("triangular-solves", f"{ci.module.name}.GpRegressor", not problems, "; ".join(sorted(set(problems))),
                         REL, sh.lineno, tier="M"))

    # ---------------------------------------------------------------- kernel result shape
    for kc in prog.subclasses("CovarianceFunction"):
        fn = kc.methods.get("__call__")
        if fn is None:
            continue
        u, v = fn.args.args[1].arg, fn.args.args[2].arg
        for n in ast.walk(fn):
            if isinstance(n, ast.Call) and U(n.func) in ("zeros", "ones", "full", "empty") and n.args:
                shape = n.args[0]
                ok = False
                txt = U(shape)
                if isinstance(shape, (ast.List, ast.Tuple)) and len(shape.elts) == 2:
                    def count_of(e, name):
                        t = U(e)
                        return t in (f"{name}.shape[0]", f"len({name})")
                    ok = count_of(shape.elts[0], u) and count_of(shape.elts[1], v)
                obs.append(struct_ob("kernel-result-shape", qual(kc, fn), ok,
                                     f"a kernel evaluated on point sets u (n_u x d) and v (n_v x d) must return an n_u x n_v matrix; "
                                     f"the allocated result has shape {txt} (`.size` of a point set is n*d, a dimension confusion)",
                                     COV, n.lineno, slots={"shape": txt}))


    # ---------------------------------------------------------------- query normalisation
    for mname in ("__call__", "gradient", "spatial_derivatives", "build_posterior"):
        c, fn = prog.method("GpRegressor", mname)
        p = fn.args.args[1].arg
        uses = [n for n in ast.walk(fn) if isinstance(n, ast.Name) and n.id == p and isinstance(n.ctx, ast.Load)]
        calls = [n for n in ast.walk(fn) if isinstance(n, ast.Call) and U(n.func) == "self.process_points"
                 and len(n.args) == 1 and U(n.args[0]) == p]
        ok = len(uses) == 1 and len(calls) == 1
        obs.append(struct_ob("query-normalisation", qual(c, fn), ok,
                             f"`{p}` must be used only as the argument of self.process_points (uses: {len(uses)}, normalising calls: {len(calls)})",
                             REL, fn.lineno))

    # rows are points and columns are dimensions because the caller says so: process_points never exchanges the axes of what it was
    # given on the strength of its shape (a batch of d points in d dimensions has the shape of its own transpose)
    c_pp, pp = prog.method("GpRegressor", "process_points")
    swaps_ = []
    for st_ in ast.walk(pp):
        for n_ in ast.walk(st_) if isinstance(st_, (ast.Assign, ast.AugAssign, ast.Return)) and st_.value is not None else []:
            if (isinstance(n_, ast.Attribute) and n_.attr == "T") or (isinstance(n_, ast.Call) and U(n_.func).split(".")[-1] in
                                                                       ("transpose", "swapaxes", "moveaxis", "rollaxis")):
                swaps_.append((st_.lineno, U(st_)[:80]))
    # ... nor change their values: nothing rounds, clips or re-types the points on the way
    for st_ in ast.walk(pp):
        if isinstance(st_, (ast.Assign, ast.AugAssign, ast.Return)) and getattr(st_, "value", None) is not None:
            for n_ in ast.walk(st_.value):
                if isinstance(n_, ast.Call):
                    nm_ = U(n_.func).split(".")[-1]
                    if nm_ in ("round", "around", "round_", "rint", "floor", "ceil", "trunc", "fix", "clip", "unique", "sort") or (
                            nm_ == "astype" and n_.args and U(n_.args[0]) not in ("float", "float64", "'float64'", "double")):
                        swaps_.append((st_.lineno, U(st_)[:80] + "  [values changed]"))
    obs.append(struct_ob("query-normalisation", qual(c_pp, pp) + "[axes-kept]", not swaps_,
                         "the query points' axes are exchanged / their values changed: " + "; ".join(f"line {l_}: `{t_}`" for l_, t_ in swaps_[:2])
                         + " - the predictors are then evaluated at other points than the caller's", REL, swaps_[0][0] if swaps_ else pp.lineno, tier="F"))
    # the training data are stored as given, row k of x with entry k of y and of the noise model: the constructor never re-orders or
    # selects rows of one of them
    c_in, gin = prog.method("GpRegressor", "__init__")
    moved = []
    for st_ in ast.walk(gin):
        if isinstance(st_, ast.Assign) and len(st_.targets) == 1 and U(st_.targets[0]) in ("self.x", "self.y", "self.y_err", "self.sig"):
            for n_ in ast.walk(st_.value):
                if isinstance(n_, ast.Subscript) and U(n_.value) in ("self.x", "self.y", "x", "y", "self.y_err", "y_err", "self.sig"):
                    idx = n_.slice.elts[0] if isinstance(n_.slice, ast.Tuple) and n_.slice.elts else n_.slice
                    plain = isinstance(idx, ast.Slice) and idx.lower is None and idx.upper is None and idx.step is None
                    if not plain and not (isinstance(idx, ast.Constant) and idx.value is None):
                        moved.append((st_.lineno, U(st_)[:80]))
        if isinstance(st_, ast.Expr) and isinstance(st_.value, ast.Call) and isinstance(st_.value.func, ast.Attribute) \
                and st_.value.func.attr in ("sort", "resize") and U(st_.value.func.value) in ("self.x", "self.y", "x", "y"):
            moved.append((st_.lineno, U(st_)[:80]))
    # the noise matrix of the model is what check_error_data returned: self.sig is assigned from that call only (a jitter added to
    # it afterwards is a noise model the caller did not give)
    gci_ = prog.cls("GpRegressor")
    for mname_, fn_ in gci_.methods.items():
        for st_ in ast.walk(fn_):
            tg_ = st_.targets[0] if isinstance(st_, ast.Assign) and len(st_.targets) == 1 else st_.target if isinstance(st_, ast.AugAssign) else None
            b_ = tg_
            while isinstance(b_, ast.Subscript):
                b_ = b_.value
            if b_ is not None and U(b_) == "self.sig":
                v_ = st_.value if isinstance(st_, ast.Assign) and isinstance(tg_, ast.Attribute) else None
                if not (isinstance(v_, ast.Call) and U(v_.func) == "self.check_error_data"):
                    moved.append((st_.lineno, U(st_)[:80] + "  [noise matrix changed after it was built]"))
    obs.append(struct_ob("error-input-typestate", qual(c_in, gin) + "[data-rows-as-given]", not moved,
                         "training points, values and errors are paired by position: " + "; ".join(f"line {l_}: `{t_}`" for l_, t_ in moved[:2])
                         + " re-orders / selects rows of one array only", REL, moved[0][0] if moved else gin.lineno, tier="F"))
    obs.extend(default_instance_obligations(prog, "components-not-shared", [('GpRegressor', '__init__')]))

    obs.append(refresh_obligation(prog, "state-refreshed", "GpRegressor", "set_hyperparameters"))

    obs.extend(cancellation_obligations(prog, "difference-before-square", ['inference/gp/covariance.py', 'inference/gp/regression.py']))
    obs.extend(dtype_hazard_obligations(prog, "float-arithmetic", ['inference/gp/regression.py']))
    from .common import call_order_obligations
    obs.extend(call_order_obligations(prog, "arguments-in-order", ['inference/gp/regression.py']))
    from .common import identity_memo_obligations
    obs.extend(identity_memo_obligations(prog, "result-keyed-on-values", ['inference/gp/regression.py']))

    obs.extend(memo_obligations(prog, "cache-key", [prog.cls("GpRegressor")]))

    meta = {
        "explanation": "Matrix normal form: alpha, the point-wise mean/variance, the joint mean/covariance and the mean-only path "
                       "are expanded (self.alpha / self.L inlined from set_hyperparameters) and compared with K_qx K^-1 (y-mu) + m(q) "
                       "and K_qq - K_qx K^-1 K_xq written with K^-1 = L^-T L^-1, L the Cholesky factor of build_covariance + sig, "
                       "every triangular solve using the matching triangle; kernel __call__ allocations must be n_u x n_v; "
                       "check_error_data is checked by a flow-sensitive type-set rule and a normal-form check of diag(y_err^2); "
                       "query points go through process_points exactly once.",
        "assumptions": ["numpy/scipy cholesky and solve_triangular; kernels' __call__ / build_covariance agree (C10)"],
        "info": info,
    }
    return obs, FLOORS, meta


def _error_inputs(prog, c, fn):
    out = []
    # the two arms: the statements executed when y_cov is given, and when only y_err is given
    arms = {"y_cov": path_statements(fn.body, {"y_cov": False}),
            "y_err": path_statements(fn.body, {"y_cov": True, "y_err": False})}
    arms = {k: (v if v and isinstance(v[-1], ast.Return) else None) for k, v in arms.items()}
    for var in ("y_cov", "y_err"):
        body = arms.get(var)
        if body is None:
            raise AnalysisError(f"anchor vanished: `{var} is not None` arm of check_error_data")
        conv = None
        for st in body:
            if isinstance(st, ast.If) and "list" in U(st.test) and "tuple" in U(st.test):
                conv = st
        ok, why = False, "no list/tuple conversion branch"
        if conv is not None:
            assigns = [s for s in conv.body if isinstance(s, ast.Assign)]
            tested = var in U(conv.test)
            ok = tested and len(assigns) == 1 and U(assigns[0].targets[0]) == var \
                and f"array({var})" in U(assigns[0].value)
            why = f"conversion branch tests `{U(conv.test)}` and does `{[U(a) for a in assigns]}`"
        # after the conversion only `var` is used with array-only attributes and returned
        later = [n for st in body for n in ast.walk(st) if isinstance(n, ast.Attribute) and n.attr in ("shape", "T")
                 and isinstance(n.value, ast.Name)]
        ok = ok and all(n.value.id == var for n in later)
        out.append(struct_ob("error-input-typestate", qual(c, fn) + f"[{var}]", ok,
                             f"a list/tuple `{var}` must be converted into `{var}` itself, the name whose .shape/.T are read and "
                             f"which is returned: {why}", REL, conv.lineno if conv is not None else fn.lineno, detail=var))
    # no errors given means no noise: the remaining arm returns a matrix of zeros (a "nugget" is a noise model the caller did not ask for)
    arm0 = path_statements(fn.body, {"y_cov": True, "y_err": True})
    rets0 = [n for st in arm0 for n in ast.walk(st) if isinstance(n, ast.Return) and n.value is not None]
    rz0_ = Resolver(fn, prog, c.module, c)
    bad0 = [r for r in rets0 if not any(pmatch(rz0_.term(r.value, r), pt_) is not None for pt_ in
                                        ("zeros([_n, _n])", "zeros((_n, _n))", "zeros([_n, _n], **_)", "zeros((_n, _n), **_)", "zeros_like(_k)"))]
    out.append(struct_ob("error-input-typestate", qual(c, fn) + "[no-errors-no-noise]", bool(rets0) and not bad0,
                         "with neither y_err nor y_cov the noise matrix is zero: "
                         + (f"line {bad0[0].lineno} returns `{U(bad0[0].value)[:80]}`" if bad0 else "no return on that arm"), REL,
                         bad0[0].lineno if bad0 else fn.lineno, tier="F"))
    # a covariance that is given is used as given: every return of that arm hands back y_cov itself
    rets_cov = [n for st in arms["y_cov"] for n in ast.walk(st) if isinstance(n, ast.Return)]
    other = [r for r in rets_cov if r.value is None or U(r.value) != "y_cov"]
    why = ""
    if other:
        cond = None
        for st in arms["y_cov"]:
            for n in ast.walk(st):
                if isinstance(n, ast.If) and any(x is other[0] for b in n.body + n.orelse for x in ast.walk(b)):
                    cond = n.test
        why = (f"line {other[0].lineno} returns `{U(other[0].value) if other[0].value is not None else None}`"
               + (f" when `{U(cond)[:100]}`" if cond is not None else "") + " instead of the covariance that was given: the posterior is "
               "then conditioned on another error model than the caller's")
    out.append(struct_ob("error-input-typestate", qual(c, fn) + "[covariance-as-given]", bool(rets_cov) and not other,
                         "a data covariance passed as y_cov must be used unchanged: " + (why or "no return on the y_cov arm"), REL,
                         other[0].lineno if other else fn.lineno, tier="F"))
    # what the caller gave is what is used: the error arguments are re-bound only to array conversions of themselves
    def pure_conversion(e, name):
        while True:
            if isinstance(e, ast.Call) and isinstance(e.func, ast.Attribute) and e.func.attr in ("squeeze", "copy", "flatten", "ravel") and not e.args:
                e = e.func.value
            elif isinstance(e, ast.Call) and U(e.func) in ("array", "asarray", "atleast_1d", "asanyarray") and len(e.args) == 1 \
                    and all(k.arg == "dtype" for k in e.keywords):
                e = e.args[0]
            else:
                break
        return isinstance(e, ast.Name) and e.id == name
    altered = []
    for var in ("y_err", "y_cov"):
        for st in ast.walk(fn):
            tg = st.targets[0] if isinstance(st, ast.Assign) and len(st.targets) == 1 else st.target if isinstance(st, ast.AugAssign) else None
            if tg is not None and U(tg) == var and not (isinstance(st, ast.Assign) and pure_conversion(st.value, var)):
                altered.append((st.lineno, U(st)[:100]))
    out.append(struct_ob("error-input-typestate", qual(c, fn) + "[errors-as-given]", not altered,
                         "the data errors the caller passed must be used unchanged (a list / tuple may be converted to an array): "
                         + "; ".join(f"line {l}: `{t}`" for l, t in altered[:2]), REL, altered[0][0] if altered else fn.lineno, tier="E"))
    # the standard-deviation arm returns diag(y_err**2)
    rets = [n for st in arms["y_err"] for n in ast.walk(st) if isinstance(n, ast.Return)]
    deferred = None
    if len(rets) == 1 and isinstance(rets[0].value, ast.Call) and U(rets[0].value.func) == "diag" and rets[0].value.args:
        anf.reset()
        ex = Expander(prog, c.module, None)
        v = ex.eval(rets[0].value.args[0], {"y_err": R.sym("y_err")})
        ok = v.eq(R.sym("y_err") ** 2)
        out.append(struct_ob("error-input-typestate", qual(c, fn) + "[equivalence]", ok,
                             f"standard deviations must become diag(y_err^2), the covariance the equivalent y_cov would give: returns diag({v})",
                             REL, fn.lineno, tier="F"))
    else:
        deferred = AnalysisError("error-input-typestate: the y_err arm of check_error_data does not return diag(<expression>) - whether "
                                 f"`{U(rets[0].value)[:80] if rets and rets[0].value is not None else None}` stands for the same covariance "
                                 "is not decided")
    if deferred is not None and all(o.ok for o in out):
        raise deferred
    return out
