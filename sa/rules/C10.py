"""C10 - covariance and mean functions are valid; gradients exact (tier F + S).

Decides: builder = pairwise kernel on the same points + a declared diagonal, for every
dimension; K returned by covariance_and_gradients = build_covariance; kernel-local gradients
are the derivatives (index-generic); the change-point coefficient recurrence is the same in
its three copies; mean builders / gradients likewise; composites concatenate in one order.
Does not decide: positive-semidefiniteness; the product rule across change-point coefficients
for >= 3 kernels (needs list-valued symbolic interpretation of a loop nest).
"""
from __future__ import annotations
import ast
from fractions import Fraction
from ..model import qual
from ..symx import Expander, TupleV, ListV
from ..anf import R, Unsupported
from .. import anf
from .common import struct_ob, formula_ob, guard, last_return, U
from ..report import AnalysisError, Ob

COV = "inference/gp/covariance.py"
MEAN = "inference/gp/mean.py"
FLOORS = {"builder-vs-pairwise": 4, "value-sibling": 4, "gradient-is-derivative": 9, "changepoint-siblings": 4,
          "composition-order": 4, "mean-sibling": 3, "mean-gradient": 3, "composite-structure": 3,
          "changepoint-shared-inplace": 3}

SCALARS = {"theta[0]", "theta[1]", "theta[1:]", "theta[2:]", "theta"}
KERNELS = ("WhiteNoise", "SquaredExponential", "RationalQuadratic", "HeteroscedasticNoise")


def kexp(prog, ci):
    ex = Expander(prog, ci.module, ci)
    ex.scalar_names = set(SCALARS) - {"theta"}
    ex.ctor_methods = ("__init__", "pass_spatial_data")
    ex.array_pred = lambda a: a[0] == "sym" and a[1] not in ("theta[0]", "theta[1]")
    ex.n_atom = R.sym("d")
    ex.on_for = lambda node, env: "once"
    return ex


IDENTITY_SYMS = set()


def identity_attrs(prog, ci):
    """Attributes defined at data-passing time as  eye(..)  or  <literal> * eye(..)  (an identity / jitter matrix)."""
    out = set()
    for c, fn, st, value in [s_ for a in ("I", "epsilon") for s_ in prog.self_assignments(ci, a, methods={"pass_spatial_data", "__init__"})]:
        v = value
        if isinstance(v, ast.BinOp) and isinstance(v.op, ast.Mult) and isinstance(v.left, ast.Constant):
            v = v.right
        elif isinstance(v, ast.BinOp) and isinstance(v.op, ast.Mult) and isinstance(v.right, ast.Constant):
            v = v.left
        if isinstance(v, ast.Call) and U(v.func) in ("eye", "identity"):
            out.add("self." + U(st.targets[0]).split(".", 1)[1])
    return out


def identity_like(a):
    return (a[0] == "fn" and a[1] in ("numpy.eye", "numpy.diag", "numpy.identity")) or (a[0] == "sym" and a[1] in IDENTITY_SYMS)


def is_declared_diagonal(d: R):
    """d is a sum of terms each containing exactly one identity-like atom to the first power."""
    if d.is_zero():
        return True
    if any(identity_like(a) for m in d.den for a, e in m):
        return False
    for m in d.num:
        n = sum(e for a, e in m if identity_like(a))
        if n != 1:
            return False
    return True


def on_diagonal(d: R):
    """Value of d on the diagonal: the row and column copies of every point atom coincide."""
    mapping = {}
    for a in d.all_atoms():
        if a[0] == "sym" and a[1].endswith("[@r]"):
            mapping[a] = R.sym(a[1][:-4] + "[@c]")
    return anf.subst(d, mapping) if mapping else d


def run(prog, tier):
    anf.reset()
    obs, info = [], []
    theta = R.sym("theta")
    x = R.sym("x")

    values = {}
    IDENTITY_SYMS.clear()
    for kname in KERNELS:
        ci = prog.cls(kname)
        IDENTITY_SYMS.update(identity_attrs(prog, ci))
        call, build, cag = ci.methods.get("__call__"), ci.methods.get("build_covariance"), ci.methods.get("covariance_and_gradients")
        if not (call and build and cag):
            raise AnalysisError(f"anchor vanished: {kname} kernel methods")
        ex = kexp(prog, ci)
        pair = guard(lambda: ex.run(call.body, {call.args.args[1].arg: x, call.args.args[2].arg: x, call.args.args[3].arg: theta}))
        ex = kexp(prog, ci)
        bld = guard(lambda: ex.run(build.body, {build.args.args[1].arg: theta}))
        diff = bld - pair
        ok = is_declared_diagonal(diff)
        obs.append(Ob("builder-vs-pairwise", qual(ci, build), ok,
                      msg="" if ok else f"build_covariance minus the pairwise kernel on the same points is  {str(diff)[:300]}  which is not a "
                                        f"multiple of an identity / diag(.) term (the documented jitter or noise diagonal)",
                      file=COV, line=build.lineno, tier="F", slots={"difference": str(diff)[:300]}))
        ex = kexp(prog, ci)
        if kname == "HeteroscedasticNoise":
            # its gradient list pairs two sequences element-wise (checked structurally below); only K is expanded
            env_h = {cag.args.args[1].arg: theta}
            gstmt = [s_ for s_ in cag.body if isinstance(s_, ast.Assign) and U(s_.targets[0]) == "grads"]
            if len(gstmt) != 1:
                raise AnalysisError("anchor vanished: grads definition in HeteroscedasticNoise.covariance_and_gradients")
            guard(lambda: ex.run_until(cag.body, env_h, gstmt[0]))
            ret_h = last_return(cag)
            res = TupleV([guard(lambda: ex.eval(ret_h.value.elts[0], env_h)), ListV([])])
        else:
            res = guard(lambda: ex.run(cag.body, {cag.args.args[1].arg: theta, "grads": ListV([])}))
        if not (isinstance(res, TupleV) and len(res.items) == 2 and isinstance(res.items[1], ListV)):
            raise AnalysisError(f"{kname}.covariance_and_gradients does not return (K, [gradients])")
        K, grads = res.items[0], res.items[1].items
        obs.append(formula_ob("value-sibling", qual(ci, cag), K, bld, COV, cag.lineno,
                              what="K returned by covariance_and_gradients = build_covariance"))
        values[kname] = (K, grads, ci, cag)

    # ---------------------------------------------------------------- gradients
    def grad_ob(kname, label, got, wrt, K, ci, cag, note=""):
        want = anf.diff(K, ("sym", wrt), pointwise_sum=True)
        d = got - want
        ok = d.is_zero()
        why = ""
        if not ok and is_declared_diagonal(d) and on_diagonal(d).is_zero():
            # differs only by (identity) x (a quantity that vanishes on the diagonal): jitter x squared distance
            ok = True
        if not ok:
            why = (f"d K / d {wrt}{note}: code has  {str(got)[:260]}  but the derivative of the value is  {str(want)[:260]}; "
                   f"difference {str(d)[:200]}")
        obs.append(Ob("gradient-is-derivative", qual(ci, cag) + f"[{label}]", ok, msg=why, file=COV, line=cag.lineno, tier="F",
                      slots={"wrt": wrt, "code_form": str(got)[:300], "derivative": str(want)[:300]}))

    K, grads, ci, cag = values["WhiteNoise"]
    if len(grads) != 1:
        raise AnalysisError("WhiteNoise gradient list shape changed")
    grad_ob("WhiteNoise", "log-sigma", grads[0], "theta[0]", K, ci, cag)
    K, grads, ci, cag = values["SquaredExponential"]
    if len(grads) != 2:
        raise AnalysisError("SquaredExponential gradient list shape changed (expected amplitude + one generic scale entry)")
    grad_ob("SE", "log-amplitude", grads[0], "theta[0]", K, ci, cag)
    grad_ob("SE", "log-scale (generic dimension)", grads[1], "theta[1:]", K, ci, cag, " (per dimension)")
    K, grads, ci, cag = values["RationalQuadratic"]
    if len(grads) != 3:
        raise AnalysisError("RationalQuadratic gradient list shape changed")
    grad_ob("RQ", "log-amplitude", grads[0], "theta[0]", K, ci, cag)
    grad_ob("RQ", "log-alpha", grads[1], "theta[1]", K, ci, cag)
    grad_ob("RQ", "log-scale (generic dimension)", grads[2], "theta[2:]", K, ci, cag, " (per dimension)")
    # heteroscedastic: grads = [s * dk for s, dk in zip(sigma_sq, self.dK)], dK[i] = 2 E_ii
    ci = prog.cls("HeteroscedasticNoise")
    cag = ci.methods["covariance_and_gradients"]
    txt = U(cag)
    psd = U(ci.methods["pass_spatial_data"])
    ok = ("grads = [s * dk for s, dk in zip(sigma_sq, self.dK)]" in txt and "sigma_sq = exp(2 * theta)" in txt
          and "K = diag(sigma_sq)" in txt and "A[i, i] = 2.0" in psd and "A = zeros([self.n_params, self.n_params])" in psd
          and "self.dK.append(A)" in psd and "for i in range(self.n_params)" in psd)
    obs.append(struct_ob("gradient-is-derivative", qual(ci, cag) + "[log-sigma_i]", ok,
                         "d diag(exp(2 theta)) / d theta_i = 2 exp(2 theta_i) E_ii: gradients must pair sigma_sq[i] with the matrix "
                         "holding 2.0 at (i, i), in parameter order", COV, cag.lineno))

    # ---------------------------------------------------------------- logistic and its gradient
    cp = prog.cls("ChangePoint")
    lg, lag = cp.methods.get("logistic"), cp.methods.get("logistic_and_gradient")
    ex = Expander(prog, cp.module, None)
    ex.scalar_names = {"theta[0]", "theta[1]"}
    X = R.sym("x")
    f0 = guard(lambda: ex.run(lg.body, {lg.args.args[0].arg: X, lg.args.args[1].arg: theta}))
    res = guard(lambda: ex.run(lag.body, {lag.args.args[0].arg: X, lag.args.args[1].arg: theta}))
    if not (isinstance(res, TupleV) and isinstance(res.items[1], (ListV, TupleV)) and len(res.items[1].items) == 2):
        raise AnalysisError("logistic_and_gradient does not return (f, [df/dlocation, df/dwidth])")
    obs.append(formula_ob("gradient-is-derivative", qual(cp, lag) + "[value]", res.items[0], f0, COV, lag.lineno,
                          what="value of logistic_and_gradient = logistic"))
    for k, (lab, wrt) in enumerate((("location", "theta[0]"), ("width", "theta[1]"))):
        obs.append(formula_ob("gradient-is-derivative", qual(cp, lag) + f"[{lab}]", res.items[1].items[k],
                              anf.diff(f0, ("sym", wrt)), COV, lag.lineno, what=f"d logistic / d {lab}"))

    # ---------------------------------------------------------------- change-point recurrence: three copies agree
    obs.extend(_changepoint(prog, cp))

    # ---------------------------------------------------------------- composites
    obs.extend(_composite(prog))

    # ---------------------------------------------------------------- mean functions
    obs.extend(_means(prog))

    meta = {
        "explanation": "Each kernel's build_covariance, pairwise __call__ (on the data points) and covariance_and_gradients are expanded "
                       "to shape-erased normal forms (row / column copies of the points are distinct atoms, sums over the dimension axis "
                       "are a linear operator): builder minus pairwise must be a multiple of an identity/diag term; K of the gradient "
                       "variant must equal the builder; every gradient entry must equal the symbolic derivative with respect to its "
                       "hyper-parameter (per-dimension entries through indexed differentiation, valid for every d), up to "
                       "identity x (something vanishing on the diagonal); the logistic weights and the three copies of the "
                       "change-point coefficient recurrence must agree; composites and mean functions are checked likewise.",
        "assumptions": ["numpy broadcasting semantics as encoded by the row/column tags"],
        "info": info,
    }
    return obs, FLOORS, meta


def shared_inplace(fn):
    """Two containers that may hold the same array object, one of which is updated in place element-wise:
    the update is then visible through the other container as well."""
    alias, lists, inplace = {}, {}, {}

    def origins(e):
        if isinstance(e, ast.Name):
            return {e.id}
        if isinstance(e, ast.IfExp):
            return origins(e.body) | origins(e.orelse)
        return set()
    for n in ast.walk(fn):
        if isinstance(n, ast.Assign) and len(n.targets) == 1:
            tg, v = n.targets[0], n.value
            pairs = [(tg, v)]
            if isinstance(tg, ast.Tuple) and isinstance(v, ast.Tuple) and len(tg.elts) == len(v.elts):
                pairs = list(zip(tg.elts, v.elts))
            for a, b in pairs:
                if isinstance(a, ast.Name):
                    if isinstance(b, ast.List):
                        for e in b.elts:
                            lists.setdefault(a.id, set()).update(origins(e))
                    else:
                        o = origins(b)
                        if o:
                            alias.setdefault(a.id, set()).update(o)
        elif isinstance(n, ast.Call) and isinstance(n.func, ast.Attribute) and n.func.attr == "append" \
                and isinstance(n.func.value, ast.Name) and n.args:
            lists.setdefault(n.func.value.id, set()).update(origins(n.args[0]))
        elif isinstance(n, ast.AugAssign) and isinstance(n.target, ast.Subscript) and isinstance(n.target.value, ast.Name):
            inplace[n.target.value.id] = n

    def close(names):
        out, todo = set(), list(names)
        while todo:
            x = todo.pop()
            if x in out:
                continue
            out.add(x)
            todo.extend(alias.get(x, ()))
        return out
    closed = {k: close(v) for k, v in lists.items()}
    hits = []
    ks = sorted(closed)
    for i, a in enumerate(ks):
        for b in ks[i + 1:]:
            common = closed[a] & closed[b]
            if common and (a in inplace or b in inplace):
                st = inplace.get(a) or inplace.get(b)
                hits.append((st.lineno, f"lists `{a}` and `{b}` may hold the same array ({sorted(common)}) and `{U(st)}` updates an "
                                        f"element in place"))
    return hits


def _changepoint(prog, cp):
    out = []
    # aliasing hazard first: it is decidable whatever shape the recurrence has
    for mname in ("__call__", "build_covariance", "covariance_and_gradients"):
        fn = cp.methods.get(mname)
        hits = shared_inplace(fn) if fn is not None else []
        out.append(struct_ob("changepoint-shared-inplace", qual(cp, fn), not hits,
                             "; ".join(h[1] for h in hits) + " - the in-place product is then applied to both kernels' weights "
                             "when the two point sets are the same object", COV, hits[0][0] if hits else fn.lineno))
    if any(not o.ok for o in out):
        return out
    forms = {}
    for mname in ("__call__", "build_covariance", "covariance_and_gradients"):
        fn = cp.methods.get(mname)
        loops = [l for l in fn.body if isinstance(l, ast.For) and U(l.iter) == "self.cp_slc"]
        if len(loops) != 1:
            raise AnalysisError(f"anchor vanished: change-point loop in ChangePoint.{mname}")
        lp = loops[0]
        # idiom: kernel_coeffs[-1] *= A ; kernel_coeffs.append(B)
        aug = [s for s in lp.body if isinstance(s, ast.AugAssign) and U(s.target) == "kernel_coeffs[-1]" and isinstance(s.op, ast.Mult)]
        app = [s for s in lp.body if isinstance(s, ast.Expr) and isinstance(s.value, ast.Call)
               and U(s.value.func) == "kernel_coeffs.append"]
        init = [s for s in fn.body if isinstance(s, ast.Assign) and U(s.targets[0]) == "kernel_coeffs"]
        ok_idiom = (len(aug) == 1 and len(app) == 1 and len(init) == 1 and U(init[0].value) == "[1.0]"
                    and lp.body.index(aug[0]) < lp.body.index(app[0]))
        ex = Expander(prog, cp.module, cp)
        ex.scalar_names = {"theta[slc][0]", "theta[slc][1]"}
        ex.ctor_methods = ("__init__", "pass_spatial_data")
        ex.opaque_self_attrs = {"axis", "cp_slc", "cov_slc", "cov", "n_kernels"}
        env = {"theta": R.sym("theta")}
        if mname == "__call__":
            env[fn.args.args[1].arg] = R.sym("x")
            env[fn.args.args[2].arg] = R.sym("x")

        def hook(e, node, env_):
            f = U(node.func)
            if f == "self.logistic_and_gradient":
                w = e.inline(cp.module, cp, cp.methods["logistic"], node, env_)
                return TupleV([w, ListV([R.sym("dw")])])
            return NotImplemented
        ex.call_hook = hook
        e2 = dict(env)
        try:
            for s in lp.body:
                if s is aug[0] if aug else False:
                    break
                ex.exec_stmt(s, e2)
            A = ex.eval(aug[0].value, e2) if aug else None
            B = ex.eval(app[0].value.args[0], e2) if app else None
        except Unsupported as e:
            raise AnalysisError(f"ChangePoint.{mname}: {e}")
        forms[mname] = (A, B, ok_idiom, fn)
        # final combination  sum_i cov_i(...) * coeffs[i]
    ref = forms["build_covariance"]
    w = None
    for mname, (A, B, ok_idiom, fn) in forms.items():
        okA = isinstance(A, R) and isinstance(ref[0], R) and A.eq(ref[0])
        okB = isinstance(B, R) and isinstance(ref[1], R) and B.eq(ref[1])
        out.append(struct_ob("changepoint-siblings", qual(cp, fn), ok_idiom and okA and okB,
                             f"the coefficient recurrence must be `coeffs[-1] *= (1-w)(x)(1-w); coeffs.append(w (x) w)` with the same weights "
                             f"as build_covariance: idiom {ok_idiom}; last-coefficient factor {A} vs {ref[0]}; appended {B} vs {ref[1]}",
                             COV, fn.lineno, tier="F"))
    # the weight is the logistic of the change-point axis with (location, width) = theta[slc]; (1-w)(1-w) and w w
    A, B = ref[0], ref[1]
    ex = Expander(prog, cp.module, cp)
    ex.scalar_names = {"theta[slc][0]", "theta[slc][1]"}
    lg = cp.methods["logistic"]
    ok = False
    try:
        wv = ex.run(lg.body, {lg.args.args[0].arg: R.sym("x[self.axis]"), lg.args.args[1].arg: R.sym("theta[slc]")})
        wr = anf.subst(wv, {("sym", "x[self.axis]"): R.sym("x[self.axis][@r]")})
        wc = anf.subst(wv, {("sym", "x[self.axis]"): R.sym("x[self.axis][@c]")})
        ok = A.eq((1 - wr) * (1 - wc)) and B.eq(wr * wc)
    except Unsupported:
        ok = False
    out.append(struct_ob("changepoint-siblings", qual(cp, cp.methods["build_covariance"]) + "[weights]", ok,
                         f"the two coefficients must be (1-w_r)(1-w_c) and w_r w_c with w = logistic(x[:, axis], theta[slc]); found {A} and {B}",
                         COV, cp.methods["build_covariance"].lineno, tier="F"))
    return out


def _composite(prog):
    out = []
    cc = prog.cls("CompositeCovariance")
    want = {
        "__call__": "sum((comp(u, v, theta[slc]) for comp, slc in zip(self.components, self.slices)))",
        "build_covariance": "sum((comp.build_covariance(theta[slc]) for comp, slc in zip(self.components, self.slices)))",
    }
    for mname, w in want.items():
        fn = cc.methods.get(mname)
        ret = last_return(fn)
        ok = ret is not None and U(ret.value) == w
        out.append(struct_ob("composite-structure", qual(cc, fn), ok,
                             f"a sum of kernels must add each component evaluated on its own slice of theta: `{U(ret.value) if ret else None}`",
                             COV, fn.lineno))
    fn = cc.methods.get("covariance_and_gradients")
    txt = U(fn)
    ok = ("comp.covariance_and_gradients(theta[slc]) for comp, slc in zip(self.components, self.slices)" in txt
          and "K = sum((r[0] for r in results))" in txt and "[gradients.extend(r[1]) for r in results]" in txt
          and "return (K, gradients)" in txt)
    out.append(struct_ob("composite-structure", qual(cc, fn), ok,
                         "value = sum of component values; gradients = component gradient lists concatenated in component order", COV, fn.lineno))
    # composition order: slices, labels, bounds built over self.components in order
    psd = cc.methods.get("pass_spatial_data")
    txt = U(psd)
    ok = ("self.slices = slice_builder([c.n_params for c in self.components])" in txt
          and "for i, comp in enumerate(self.components):" in txt and "self.hyperpar_labels.extend(labels)" in txt)
    out.append(struct_ob("composition-order", qual(cc, psd), ok, "slices and labels must be built over the components in order", COV, psd.lineno))
    eb = cc.methods.get("estimate_hyperpar_bounds")
    ok = "[self.bounds.extend(comp.bounds) for comp in self.components]" in U(eb)
    out.append(struct_ob("composition-order", qual(cc, eb), ok, "bounds must be concatenated over the components in order", COV, eb.lineno))
    add = prog.cls("CovarianceFunction").methods.get("__add__")
    ok = "return CompositeCovariance([*K1, *K2])" in U(add)
    out.append(struct_ob("composition-order", qual(prog.cls("CovarianceFunction"), add), ok,
                         "k1 + k2 must keep the left operand's components first", COV, add.lineno))
    sb = prog.function(COV, "slice_builder")
    txt = [U(s) for s in sb.body if not (isinstance(s, ast.Expr) and isinstance(s.value, ast.Constant))]
    ok = txt == ["slices = [slice(0, lengths[0])]",
                 "for L in lengths[1:]:\n    last = slices[-1].stop\n    slices.append(slice(last, last + L))", "return slices"]
    out.append(struct_ob("composition-order", "inference.gp.covariance.slice_builder", ok,
                         f"slices must be contiguous: start_(k+1) = stop_k, length = the component's parameter count: {txt}", COV, sb.lineno))
    # change-point layout: kernels first, then (location, width) pairs; bounds interleaved the same way
    cp = prog.cls("ChangePoint")
    psd = U(cp.methods["pass_spatial_data"])
    ehb = U(cp.methods["estimate_hyperpar_bounds"])
    ok = ("param_counts = [K.n_params for K in self.cov]" in psd and "param_counts.extend([2] * (self.n_kernels - 1))" in psd
          and "self.cov_slc = slices[:self.n_kernels]" in psd and "self.cp_slc = slices[self.n_kernels:]" in psd
          and "label_groups.append([f'ChngPnt{i} location', f'ChngPnt{i} width'])" in psd
          and "chain.from_iterable(zip(self.location_bounds, self.width_bounds))" in ehb
          and "for cov in self.cov:" in ehb and "self.bounds.extend(cov.bounds)" in ehb)
    lg = U(cp.methods["logistic"])
    ok = ok and "z = (x - theta[0]) / theta[1]" in lg
    out.append(struct_ob("composition-order", qual(cp, cp.methods["pass_spatial_data"]), ok,
                         "change-point parameters must be laid out kernels first, then (location, width) per change-point, in slices, "
                         "labels, bounds and in logistic(x, theta) (theta[0] location, theta[1] width)", COV, cp.node.lineno))
    return out


def _means(prog):
    out = []
    for mc in prog.subclasses("MeanFunction"):
        call, bm, mg = mc.methods.get("__call__"), mc.methods.get("build_mean"), mc.methods.get("mean_and_gradients")
        if not (call and bm and mg):
            continue
        def mk():
            ex = Expander(prog, mc.module, mc)
            ex.ctor_methods = ("__init__", "pass_spatial_data")
            ex.scalar_names = {"theta[0]"}
            ex.opaque_self_attrs = {"lin_slc", "quad_slc", "n_data"}
            ex.array_pred = lambda a: a[0] == "sym" and a[1] != "theta[0]"
            ex.n_atom = R.sym("d")
            return ex
        theta = R.sym("theta")
        ex = mk()
        vb = guard(lambda: ex.run(bm.body, {bm.args.args[1].arg: theta}))
        ex = mk()
        vc = guard(lambda: ex.run(call.body, {call.args.args[1].arg: R.sym("x"), call.args.args[2].arg: theta}))
        def untag(v):
            m_ = {a: R.atom(("fn", "mean", a[2])) for a in v.all_atoms() if a[0] == "fn" and a[1].startswith("mean[")}
            return anf.subst(v, m_) if m_ else v
        vb, vc = untag(vb), untag(vc)
        out.append(formula_ob("mean-sibling", qual(mc, bm), vb, vc, MEAN, bm.lineno,
                              what="build_mean = __call__ evaluated on the data points"))
        ex = mk()
        res = guard(lambda: ex.run(mg.body, {mg.args.args[1].arg: theta}))
        ok_val = isinstance(res, TupleV) and isinstance(res.items[0], R) and untag(res.items[0]).eq(vb)
        # gradient list: [ones] + rows of dx.T (+ rows of dx_sqr.T): d value / d theta_k
        txt = U(mg)
        if mc.name == "ConstantMean":
            okg = "[ones(self.n_data)]" in txt
        elif mc.name == "LinearMean":
            okg = "grads = [ones(self.n_data)]" in txt and "grads.extend([v for v in self.dx.T])" in txt
        else:
            okg = ("grads = [ones(self.n_data)]" in txt and "grads.extend([v for v in self.dx.T])" in txt
                   and "grads.extend([v for v in self.dx_sqr.T])" in txt
                   and txt.index("self.dx.T") < txt.index("self.dx_sqr.T"))
        # derivative check of the generic entries through the value expression
        d0 = anf.diff(vb, ("sym", "theta[0]"))
        okd = d0.eq(R.const(1))
        out.append(struct_ob("mean-gradient", qual(mc, mg), ok_val and okg and okd,
                             f"mean_and_gradients must return build_mean and, in parameter order, d mean / d theta_k "
                             f"(1; the centred coordinates; their squares): value agrees {ok_val}; list order {okg}; d/d theta0 = {d0}",
                             MEAN, mg.lineno, tier="F"))
    return out
