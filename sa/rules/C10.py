"""C10 - covariance and mean functions are valid; gradients exact (tier F + S).

Decides: builder = pairwise kernel on the same points + a declared diagonal, for every
dimension; K returned by covariance_and_gradients = build_covariance; kernel-local gradients
are the derivatives (index-generic); the change-point coefficient recurrence is the same in
its three copies; mean builders / gradients likewise; composites concatenate in one order.
Does not decide: positive-semidefiniteness; the product rule across change-point coefficients
for >= 3 kernels (needs list-valued symbolic interpretation of a loop nest).
"""
from __future__ import annotations
import ast
from fractions import Fraction
from ..model import qual
from ..symx import Expander, TupleV, ListV
from ..anf import R, Unsupported
from .. import anf
from .common import cancellation_obligations, memo_obligations, dtype_hazard_obligations, struct_ob, formula_ob, guard, last_return, U, purity_obligations
from ..report import AnalysisError, Ob
from ..term import Resolver, pmatch, find_all, abstract, anf_of
from ..seq import Layouts, UNKNOWN, show

COV = "inference/gp/covariance.py"
MEAN = "inference/gp/mean.py"
FLOORS = {"changepoint-instance": 8, "difference-before-square": 1, "float-arithmetic": 2, "builder-vs-pairwise": 4, "value-sibling": 4, "gradient-is-derivative": 9, "changepoint-siblings": 4,
          "composition-order": 4, "mean-sibling": 3, "mean-gradient": 3, "composite-structure": 3, "pairwise-axes": 10,
          "changepoint-shared-inplace": 3, "arguments-not-mutated": 60, "overflow-safe": 8}

SCALARS = {"theta[0]", "theta[1]", "theta[1:]", "theta[2:]", "theta"}
KERNELS = ("WhiteNoise", "SquaredExponential", "RationalQuadratic", "HeteroscedasticNoise")


def kexp(prog, ci):
    ex = Expander(prog, ci.module, ci)
    ex.scalar_names = set(SCALARS) - {"theta"}
    ex.ctor_methods = ("__init__", "pass_spatial_data")
    ex.array_pred = lambda a: a[0] == "sym" and a[1] not in ("theta[0]", "theta[1]")
    ex.n_atom = R.sym("d")
    ex.on_for = lambda node, env: "once"
    return ex


IDENTITY_SYMS = set()


def identity_attrs(prog, ci):
    """Attributes defined at data-passing time as  eye(..)  or  <literal> * eye(..)  (an identity / jitter matrix)."""
    out = set()
    sites = []
    for c in prog.mro(ci):
        for mname in ("pass_spatial_data", "__init__"):
            fn = c.methods.get(mname)
            if fn is None or not fn.args.args:
                continue
            for st in ast.walk(fn):
                if isinstance(st, ast.Assign) and len(st.targets) == 1 and isinstance(st.targets[0], ast.Attribute) \
                        and isinstance(st.targets[0].value, ast.Name) and st.targets[0].value.id == fn.args.args[0].arg:
                    sites.append((c, fn, st, st.value))
    for c, fn, st, value in sites:
        v = value
        if isinstance(v, ast.BinOp) and isinstance(v.op, ast.Mult) and isinstance(v.left, ast.Constant):
            v = v.right
        elif isinstance(v, ast.BinOp) and isinstance(v.op, ast.Mult) and isinstance(v.right, ast.Constant):
            v = v.left
        if isinstance(v, ast.Call) and U(v.func) in ("eye", "identity"):
            out.add("self." + U(st.targets[0]).split(".", 1)[1])
    return out


def identity_like(a):
    return (a[0] == "fn" and a[1] in ("numpy.eye", "numpy.diag", "numpy.identity")) or (a[0] == "sym" and a[1] in IDENTITY_SYMS)


def is_declared_diagonal(d: R):
    """d is a sum of terms each containing exactly one identity-like atom to the first power."""
    if d.is_zero():
        return True
    if any(identity_like(a) for m in d.den for a, e in m):
        return False
    for m in d.num:
        n = sum(e for a, e in m if identity_like(a))
        if n != 1:
            return False
    return True


def on_diagonal(d: R):
    """Value of d on the diagonal: the row and column copies of every point atom coincide."""
    mapping = {}
    for a in d.all_atoms():
        if a[0] == "sym" and a[1].endswith("[@r]"):
            mapping[a] = R.sym(a[1][:-4] + "[@c]")
    return anf.subst(d, mapping) if mapping else d


def _on_diagonal_is_zero(d):
    try:
        return on_diagonal(d).is_zero()
    except Unsupported:
        return False          # singular where the two points coincide


def run(prog, tier):
    anf.reset()
    obs, info = [], []
    theta = R.sym("theta")
    x = R.sym("x")

    values = {}
    IDENTITY_SYMS.clear()
    # every elementary kernel of the package: the four the rules were written against plus any covariance class added since (it gets
    # the same self-consistency obligations; if its formulas are outside the algebra the check ends "not decided", never silently)
    extra = [k_.name for k_ in prog.subclasses("CovarianceFunction")
             if k_.name not in KERNELS and k_.name not in ("CompositeCovariance", "ChangePoint") and not k_.name.startswith("_")
             and all(m_ in k_.methods for m_ in ("__call__", "build_covariance", "covariance_and_gradients"))]
    for kname in tuple(KERNELS) + tuple(sorted(extra)):
        ci = prog.cls(kname)
        IDENTITY_SYMS.update(identity_attrs(prog, ci))
        call, build, cag = ci.methods.get("__call__"), ci.methods.get("build_covariance"), ci.methods.get("covariance_and_gradients")
        if not (call and build and cag):
            raise AnalysisError(f"anchor vanished: {kname} kernel methods")
        ex = kexp(prog, ci)
        pair = guard(lambda: ex.run(call.body, {call.args.args[1].arg: x, call.args.args[2].arg: x, call.args.args[3].arg: theta}))
        ex = kexp(prog, ci)
        bld = guard(lambda: ex.run(build.body, {build.args.args[1].arg: theta}))
        diff = bld - pair
        ok = is_declared_diagonal(diff)
        obs.append(Ob("builder-vs-pairwise", qual(ci, build), ok,
                      msg="" if ok else f"build_covariance minus the pairwise kernel on the same points is  {str(diff)[:300]}  which is not a "
                                        f"multiple of an identity / diag(.) term (the documented jitter or noise diagonal)",
                      file=COV, line=build.lineno, tier="F", slots={"difference": str(diff)[:300]}))
        ex = kexp(prog, ci)
        if kname == "HeteroscedasticNoise":
            # its gradient list pairs two sequences element-wise (checked structurally below); only K is expanded
            env_h = {cag.args.args[1].arg: theta}
            gstmt = [s_ for s_ in cag.body if isinstance(s_, ast.Assign) and U(s_.targets[0]) == "grads"]
            if len(gstmt) != 1:
                raise AnalysisError("anchor vanished: grads definition in HeteroscedasticNoise.covariance_and_gradients")
            guard(lambda: ex.run_until(cag.body, env_h, gstmt[0]))
            ret_h = last_return(cag)
            res = TupleV([guard(lambda: ex.eval(ret_h.value.elts[0], env_h)), ListV([])])
        else:
            res = guard(lambda: ex.run(cag.body, {cag.args.args[1].arg: theta, "grads": ListV([])}))
        if not (isinstance(res, TupleV) and len(res.items) == 2 and isinstance(res.items[1], ListV)):
            raise AnalysisError(f"{kname}.covariance_and_gradients does not return (K, [gradients])")
        K, grads = res.items[0], res.items[1].items
        obs.append(formula_ob("value-sibling", qual(ci, cag), K, bld, COV, cag.lineno,
                              what="K returned by covariance_and_gradients = build_covariance"))
        values[kname] = (K, grads, ci, cag)

    # ---------------------------------------------------------------- the tables belong to the data that was passed last
    # pass_spatial_data rebuilds every table it keeps, on every call: an early exit ("tables of this shape exist already") leaves the
    # distances of the previous point set in place, and the builder then differs from the pairwise kernel on the new points
    for base_ in ("CovarianceFunction", "MeanFunction"):
        for kc_ in prog.subclasses(base_):
            psd_ = kc_.methods.get("pass_spatial_data")
            if psd_ is None or not psd_.args.args:
                continue
            sn_ = psd_.args.args[0].arg
            stores_ = [st_.lineno for st_ in ast.walk(psd_) if isinstance(st_, (ast.Assign, ast.AugAssign))
                       for t_ in (st_.targets if isinstance(st_, ast.Assign) else [st_.target])
                       if isinstance(t_, ast.Attribute) and isinstance(t_.value, ast.Name) and t_.value.id == sn_]
            if not stores_:
                continue
            early_ = [r_.lineno for r_ in ast.walk(psd_) if isinstance(r_, ast.Return) and r_.lineno < max(stores_)]
            # ... nor is a table stored only under a condition that looks at what is already there (the same skip, written as a guard)
            for if_ in ast.walk(psd_):
                if isinstance(if_, ast.If) and not if_.orelse and any(
                        isinstance(x, (ast.Attribute,)) and isinstance(x.value, ast.Name) and x.value.id == sn_ and isinstance(x.ctx, ast.Load)
                        for x in ast.walk(if_.test)) or (isinstance(if_, ast.If) and not if_.orelse and any(
                            isinstance(x, ast.Call) and U(x.func) in ("getattr", "hasattr") for x in ast.walk(if_.test))):
                    if any(isinstance(s2, (ast.Assign, ast.AugAssign)) and any(
                            isinstance(t2, ast.Attribute) and isinstance(t2.value, ast.Name) and t2.value.id == sn_
                            for t2 in (s2.targets if isinstance(s2, ast.Assign) else [s2.target])) for b2 in if_.body for s2 in ast.walk(b2)):
                        early_.append(if_.lineno)
            obs.append(struct_ob("builder-vs-pairwise", qual(kc_, psd_) + "[tables-refreshed]", not early_,
                                 f"line {early_[0] if early_ else 0}: pass_spatial_data returns before its tables are rebuilt, or rebuilds them only when the stored ones do not fit - a later point set "
                                 f"of the same shape is evaluated with the earlier set's tables", kc_.module.relpath, psd_.lineno, tier="F"))
    # ---------------------------------------------------------------- gradients
    def grad_ob(kname, label, got, wrt, K, ci, cag, note=""):
        want = anf.diff(K, ("sym", wrt), pointwise_sum=True)
        d = got - want
        ok = d.is_zero()
        why = ""
        if not ok and is_declared_diagonal(d) and _on_diagonal_is_zero(d):
            # differs only by (identity) x (a quantity that vanishes on the diagonal): jitter x squared distance
            ok = True
        if not ok:
            why = (f"d K / d {wrt}{note}: code has  {str(got)[:260]}  but the derivative of the value is  {str(want)[:260]}; "
                   f"difference {str(d)[:200]}")
        obs.append(Ob("gradient-is-derivative", qual(ci, cag) + f"[{label}]", ok, msg=why, file=COV, line=cag.lineno, tier="F",
                      slots={"wrt": wrt, "code_form": str(got)[:300], "derivative": str(want)[:300]}))

    K, grads, ci, cag = values["WhiteNoise"]
    if len(grads) != 1:
        raise AnalysisError("WhiteNoise gradient list shape changed")
    grad_ob("WhiteNoise", "log-sigma", grads[0], "theta[0]", K, ci, cag)
    K, grads, ci, cag = values["SquaredExponential"]
    if len(grads) != 2:
        raise AnalysisError("SquaredExponential gradient list shape changed (expected amplitude + one generic scale entry)")
    grad_ob("SE", "log-amplitude", grads[0], "theta[0]", K, ci, cag)
    grad_ob("SE", "log-scale (generic dimension)", grads[1], "theta[1:]", K, ci, cag, " (per dimension)")
    K, grads, ci, cag = values["RationalQuadratic"]
    if len(grads) != 3:
        raise AnalysisError("RationalQuadratic gradient list shape changed")
    grad_ob("RQ", "log-amplitude", grads[0], "theta[0]", K, ci, cag)
    grad_ob("RQ", "log-alpha", grads[1], "theta[1]", K, ci, cag)
    grad_ob("RQ", "log-scale (generic dimension)", grads[2], "theta[2:]", K, ci, cag, " (per dimension)")
    # kernels added since the rules were written: entry k of the gradient list against the derivative with respect to the k-th
    # hyper-parameter symbol of the value (theta[0], theta[1], theta[2:] ... in index order)
    import re as _re2
    for kname in sorted(extra):
        K, grads, ci, cag = values[kname]
        th = sorted({a[1] for a in K.all_atoms() if a[0] == "sym" and a[1].startswith("theta[")},
                    key=lambda t_: int(_re2.match(r"theta\[(\d+)", t_).group(1)) if _re2.match(r"theta\[(\d+)", t_) else 99)
        if len(th) != len(grads) or not th:
            raise AnalysisError(f"{kname} (a covariance class the rules have no table for): {len(grads)} gradient entries against the hyper-parameter "
                                f"symbols {th} of its value - the layout of its gradient list is not decided")
        for k_, (sym_, g_) in enumerate(zip(th, grads)):
            grad_ob(kname, f"entry {k_} ({sym_})", g_, sym_, K, ci, cag, " (per dimension)" if ":" in sym_ else "")
    # heteroscedastic: grads = [s * dk for s, dk in zip(sigma_sq, self.dK)], dK[i] = 2 E_ii
    ci = prog.cls("HeteroscedasticNoise")
    cag = ci.methods["covariance_and_gradients"]
    psd_fn = ci.methods["pass_spatial_data"]
    ok, why = _hetero(prog, ci, cag, psd_fn)
    obs.append(struct_ob("gradient-is-derivative", qual(ci, cag) + "[log-sigma_i]", ok,
                         "d diag(exp(2 theta)) / d theta_i = 2 exp(2 theta_i) E_ii: gradients must pair sigma_sq[i] with the matrix "
                         "holding 2.0 at (i, i), in parameter order: " + why, COV, cag.lineno))

    # ---------------------------------------------------------------- logistic and its gradient
    cp = prog.cls("ChangePoint")
    lg, lag = cp.methods.get("logistic"), cp.methods.get("logistic_and_gradient")
    ex = Expander(prog, cp.module, None)
    ex.scalar_names = {"theta[0]", "theta[1]"}
    X = R.sym("x")
    f0 = guard(lambda: ex.run(lg.body, {lg.args.args[0].arg: X, lg.args.args[1].arg: theta}))
    res = guard(lambda: ex.run(lag.body, {lag.args.args[0].arg: X, lag.args.args[1].arg: theta}))
    if not (isinstance(res, TupleV) and isinstance(res.items[1], (ListV, TupleV)) and len(res.items[1].items) == 2):
        raise AnalysisError("logistic_and_gradient does not return (f, [df/dlocation, df/dwidth])")
    obs.append(formula_ob("gradient-is-derivative", qual(cp, lag) + "[value]", res.items[0], f0, COV, lag.lineno,
                          what="value of logistic_and_gradient = logistic"))
    for k, (lab, wrt) in enumerate((("location", "theta[0]"), ("width", "theta[1]"))):
        obs.append(formula_ob("gradient-is-derivative", qual(cp, lag) + f"[{lab}]", res.items[1].items[k],
                              anf.diff(f0, ("sym", wrt)), COV, lag.lineno, what=f"d logistic / d {lab}"))

    # ---------------------------------------------------------------- change-point recurrence: three copies agree
    obs.extend(_changepoint(prog, cp))
    obs.extend(_changepoint_instance(prog, cp, 2))      # a single change-point: the size a special-cased fast path would serve
    obs.extend(_changepoint_instance(prog, cp, 3))
    obs.extend(_changepoint_instance(prog, cp, 4))      # the first size with a change-point that has neighbours on both sides AND an end one
    if tier == "thorough":
        for n_k in (5, 6):
            obs.extend(_changepoint_instance(prog, cp, n_k))

    # ---------------------------------------------------------------- composites
    obs.extend(_composite(prog))
    obs.extend(_pairwise_axes(prog))
    from .axrules import kernel_axis_obligations
    obs.extend(kernel_axis_obligations(prog, "pairwise-axes"))

    # ---------------------------------------------------------------- mean functions
    obs.extend(_means(prog))
    # exp() of a coordinate-dependent quantity that can be large and positive must only be used where it saturates
    obs.extend(_overflow_safe(prog))
    # no kernel / mean method updates its arguments (theta, u, v, q, x) in place
    hier = []
    for b in ("CovarianceFunction", "MeanFunction"):
        hier += [prog.cls(b)] + prog.subclasses(b)
    obs.extend(purity_obligations(prog, "arguments-not-mutated", hier))

    obs.extend(cancellation_obligations(prog, "difference-before-square", ['inference/gp/covariance.py']))
    obs.extend(dtype_hazard_obligations(prog, "float-arithmetic", ['inference/gp/covariance.py', 'inference/gp/mean.py']))
    from .common import call_order_obligations
    obs.extend(call_order_obligations(prog, "arguments-in-order", ['inference/gp/covariance.py', 'inference/gp/mean.py']))
    from .common import identity_memo_obligations
    obs.extend(identity_memo_obligations(prog, "result-keyed-on-values", ['inference/gp/covariance.py', 'inference/gp/mean.py']))

    obs.extend(memo_obligations(prog, "cache-key", [c for b in ("CovarianceFunction", "MeanFunction") for c in [prog.cls(b)] + prog.subclasses(b)]))

    meta = {
        "explanation": "Each kernel's build_covariance, pairwise __call__ (on the data points) and covariance_and_gradients are expanded "
                       "to shape-erased normal forms (row / column copies of the points are distinct atoms, sums over the dimension axis "
                       "are a linear operator): builder minus pairwise must be a multiple of an identity/diag term; K of the gradient "
                       "variant must equal the builder; every gradient entry must equal the symbolic derivative with respect to its "
                       "hyper-parameter (per-dimension entries through indexed differentiation, valid for every d), up to "
                       "identity x (something vanishing on the diagonal); the logistic weights and the three copies of the "
                       "change-point coefficient recurrence must agree; composites and mean functions are checked likewise.",
        "assumptions": ["numpy broadcasting semantics as encoded by the row/column tags"],
        "info": info,
    }
    return obs, FLOORS, meta


def shared_inplace(fn):
    """Two containers that may hold the same array object, one of which is updated in place element-wise:
    the update is then visible through the other container as well."""
    alias, lists, inplace = {}, {}, {}

    def origins(e):
        if isinstance(e, ast.Name):
            return {e.id}
        if isinstance(e, ast.IfExp):
            return origins(e.body) | origins(e.orelse)
        return set()
    for n in ast.walk(fn):
        if isinstance(n, ast.Assign) and len(n.targets) == 1:
            tg, v = n.targets[0], n.value
            pairs = [(tg, v)]
            if isinstance(tg, ast.Tuple) and isinstance(v, ast.Tuple) and len(tg.elts) == len(v.elts):
                pairs = list(zip(tg.elts, v.elts))
            for a, b in pairs:
                if isinstance(a, ast.Name):
                    if isinstance(b, ast.List):
                        for e in b.elts:
                            lists.setdefault(a.id, set()).update(origins(e))
                    else:
                        o = origins(b)
                        if o:
                            alias.setdefault(a.id, set()).update(o)
        elif isinstance(n, ast.Call) and isinstance(n.func, ast.Attribute) and n.func.attr == "append" \
                and isinstance(n.func.value, ast.Name) and n.args:
            lists.setdefault(n.func.value.id, set()).update(origins(n.args[0]))
        elif isinstance(n, ast.AugAssign) and isinstance(n.target, ast.Subscript) and isinstance(n.target.value, ast.Name):
            inplace[n.target.value.id] = n

    def close(names):
        out, todo = set(), list(names)
        while todo:
            x = todo.pop()
            if x in out:
                continue
            out.add(x)
            todo.extend(alias.get(x, ()))
        return out
    closed = {k: close(v) for k, v in lists.items()}
    hits = []
    ks = sorted(closed)
    for i, a in enumerate(ks):
        for b in ks[i + 1:]:
            common = closed[a] & closed[b]
            if common and (a in inplace or b in inplace):
                st = inplace.get(a) or inplace.get(b)
                hits.append((st.lineno, f"lists `{a}` and `{b}` may hold the same array ({sorted(common)}) and `{U(st)}` updates an "
                                        f"element in place"))
    return hits


class _CPExpander(Expander):
    """Expander for the unrolled change-point methods: `.T` swaps the row / column tags of outer-product factors, loops over
    literal lists are run element by element."""
    def eval_attribute(self, node, env):
        if node.attr == "T":
            v = self.eval(node.value, env)
            if isinstance(v, R):
                m = {}
                for a in v.all_atoms():
                    if a[0] == "sym" and a[1].endswith("[@r]"):
                        m[a] = R.sym(a[1][:-4] + "[@c]")
                    elif a[0] == "sym" and a[1].endswith("[@c]"):
                        m[a] = R.sym(a[1][:-4] + "[@r]")
                return anf.subst(v, m) if m else v
            return v
        return super().eval_attribute(node, env)

    def eval(self, node, env):
        # generator expressions are evaluated like list comprehensions; a literal list may be indexed by a computed integer
        if isinstance(node, ast.GeneratorExp):
            return self.eval_listcomp(ast.copy_location(ast.ListComp(elt=node.elt, generators=node.generators), node), env)
        if isinstance(node, ast.Subscript) and not isinstance(node.slice, (ast.Constant, ast.Slice, ast.Tuple)) \
                and not (isinstance(node.slice, ast.UnaryOp) and isinstance(node.slice.operand, ast.Constant)):
            try:
                base = self.eval(node.value, env)
            except Unsupported:
                base = None
            if isinstance(base, (ListV, TupleV)):
                iv = self.eval(node.slice, env)
                if isinstance(iv, R) and iv.is_const() and iv.const_value().denominator == 1:
                    k = int(iv.const_value())
                    if -len(base.items) <= k < len(base.items):
                        return base.items[k]
                raise Unsupported(f"index `{U(node.slice)}` of a literal list is not a known integer")
        return super().eval(node, env)

    def child(self, mi, ci, selfname):
        e = _CPExpander(self.prog, mi, ci, selfname, self.depth)
        e.scalar_names, e.call_hook, e.on_for, e.opaque_self_attrs = self.scalar_names, self.call_hook, self.on_for, self.opaque_self_attrs
        return e


def _changepoint_instance(prog, cp, n_kernels=3):
    """The change-point covariance specialised to `n_kernels` kernels (loops unrolled, sa/unroll.py) and expanded exactly:
    value = sum_i K_i c_i with c_0 = a_1, c_i = b_i a_(i+1), c_last = b_last (a_k = (1-w_k)(x)(1-w_k), b_k = w_k (x) w_k) in all
    three methods, and every entry of the gradient list is the derivative of that value with respect to its parameter - in
    particular the location / width entries of change-point k carry the factor that links kernel k to its other neighbour."""
    from ..unroll import specialise
    out = []
    m = n_kernels
    consts, lengths = {"self.n_kernels": m}, {"self.cp_slc": m - 1}
    K = [R.sym(f"K{i}") for i in range(m)]
    Wr = [R.sym(f"W{k}[@r]") for k in range(m - 1)]
    Wc = [R.sym(f"W{k}[@c]") for k in range(m - 1)]
    a = [(1 - Wr[k]) * (1 - Wc[k]) for k in range(m - 1)]
    b = [Wr[k] * Wc[k] for k in range(m - 1)]
    c = []
    for i in range(m):
        ci_ = R.const(1)
        if i > 0:
            ci_ = ci_ * b[i - 1]
        if i < m - 1:
            ci_ = ci_ * a[i]
        c.append(ci_)
    want_val = R.const(0)
    for i in range(m):
        want_val = want_val + K[i] * c[i]

    import re as _re

    def idx_of(node, e=None, env_=None):
        """The component index an expression refers to: self.cov[k] / theta[self.cov_slc[k]] / theta[self.cp_slc[k]] - read from the
        syntax, or (for a local that holds such a value) from the evaluated term."""
        for n in ast.walk(node):
            if isinstance(n, ast.Subscript) and U(n.value) in ("self.cov", "self.cp_slc", "self.cov_slc") and isinstance(n.slice, ast.Constant):
                return n.slice.value
        if e is not None:
            # a local that holds the slice / the kernel (bound by zip / enumerate over the component lists)
            for n in ast.walk(node):
                if isinstance(n, ast.Name) and n.id in env_ and isinstance(env_[n.id], R):
                    mm = _re.search(r"self\.(?:cp_slc|cov_slc|cov)\[(\d+)\]", str(env_[n.id]))
                    if mm:
                        return int(mm.group(1))
            try:
                v = e.eval(node, env_)
            except Unsupported:
                return None
            mm = _re.search(r"self\.(?:cp_slc|cov_slc|cov)\[(\d+)\]", str(v))
            if mm:
                return int(mm.group(1))
        return None

    def hook(e, node, env_):
        f = node.func
        ftxt = U(f)
        if isinstance(f, ast.Attribute) and f.attr in ("covariance_and_gradients", "build_covariance") and idx_of(f.value, e, env_) is not None \
                and "self.cov[" in (U(f.value) + str(e.eval(f.value, env_) if not isinstance(f.value, ast.Subscript) else "")):
            i = idx_of(f.value, e, env_)
            si = idx_of(node.args[0], e, env_) if node.args else None
            tag = "" if si == i else f"<theta slice {si}>"
            if f.attr == "build_covariance":
                return R.sym(f"K{i}{tag}")
            return TupleV([R.sym(f"K{i}{tag}"), ListV([R.sym(f"dK{i}{tag}")])])
        kernel_local = isinstance(f, ast.Name) and f.id in env_ and isinstance(env_[f.id], R) and str(env_[f.id]).startswith("self.cov[")
        if (isinstance(f, ast.Subscript) and U(f.value) == "self.cov") or kernel_local:
            i = idx_of(f, e, env_)
            si = idx_of(node.args[2], e, env_) if len(node.args) > 2 else None
            order = [U(x) for x in node.args[:2]]
            tag = "" if (si == i and order == points) else f"<args {order}, theta slice {si}>"
            return R.sym(f"K{i}{tag}")
        if isinstance(f, ast.Name) and f.id in ("zip", "enumerate", "range", "len") and not node.keywords:
            if f.id == "range" and len(node.args) == 1:
                n_ = e.eval(node.args[0], env_)
                if isinstance(n_, R) and n_.is_const() and n_.const_value().denominator == 1:
                    return ListV([R.const(k_) for k_ in range(int(n_.const_value()))])
                return NotImplemented
            vals = [e.eval(a_, env_) for a_ in node.args]
            if all(isinstance(v_, (ListV, TupleV)) for v_ in vals) and vals:
                if f.id == "zip":
                    return ListV([TupleV(list(t_)) for t_ in zip(*[v_.items for v_ in vals])])
                if f.id == "enumerate" and len(vals) == 1:
                    return ListV([TupleV([R.const(k_), it_]) for k_, it_ in enumerate(vals[0].items)])
                if f.id == "len" and len(vals) == 1:
                    return R.const(len(vals[0].items))
            return NotImplemented
        if ftxt in ("self.logistic_and_gradient", "self.logistic"):
            k = idx_of(node.args[1], e, env_) if len(node.args) > 1 else None
            # the coordinate the weight is a function of is the change-point axis: a column picked by any other index is another function
            a0_ = node.args[0] if node.args else None
            if a0_ is not None:
                try:
                    a0v = e.eval(a0_, env_) if isinstance(a0_, ast.Name) else None
                except Unsupported:
                    a0v = None
                for n_ in ast.walk(a0_):
                    if isinstance(n_, ast.Subscript) and isinstance(n_.slice, ast.Tuple) and len(n_.slice.elts) == 2 \
                            and isinstance(n_.slice.elts[0], ast.Slice) and U(n_.slice.elts[1]) != "self.axis":
                        k = f"{k}<column {U(n_.slice.elts[1])}>"
            if ftxt == "self.logistic":
                return R.sym(f"W{k}")
            return TupleV([R.sym(f"W{k}"), ListV([R.sym(f"dW{k}_0"), R.sym(f"dW{k}_1")])])
        return NotImplemented

    def for_lists(ex_, st, env_):
        v = ex_.eval(st.iter, env_)
        if not isinstance(v, (ListV, TupleV)):
            raise Unsupported(f"loop over `{U(st.iter)}` after unrolling")
        for item in v.items:
            ex_.assign(st.target, item, env_)
            ex_.exec_block(st.body, env_)

    results = {}
    for mname in ("__call__", "build_covariance", "covariance_and_gradients"):
        fn = cp.methods.get(mname)
        if fn is None:
            raise AnalysisError(f"anchor vanished: ChangePoint.{mname}")
        f2 = specialise(fn, consts, lengths)
        points = [a_.arg for a_ in fn.args.args[1:3]] if mname == "__call__" else []
        ex = _CPExpander(prog, cp.module, cp)
        ex.opaque_self_attrs = {"axis", "cp_slc", "cov_slc", "cov", "n_kernels", "x_cp"}
        ex.call_hook = hook
        ex.on_for = lambda node, env_: for_lists

        def decide(node, env_, ex=ex):
            t = node.test
            if isinstance(t, ast.Compare) and len(t.ops) == 1:
                a_, b_ = ex.eval(t.left, env_), ex.eval(t.comparators[0], env_)
                if isinstance(a_, R) and isinstance(b_, R) and a_.is_const() and b_.is_const():
                    x_, y_ = a_.const_value(), b_.const_value()
                    r_ = {ast.Lt: x_ < y_, ast.LtE: x_ <= y_, ast.Gt: x_ > y_, ast.GtE: x_ >= y_, ast.Eq: x_ == y_, ast.NotEq: x_ != y_}.get(type(t.ops[0]))
                    if r_ is not None:
                        return "body" if r_ else "orelse"
            raise Unsupported(f"branch `{U(t)}` is not decided by the instance size")
        ex.on_if = decide
        env = {a_.arg: R.sym(a_.arg) for a_ in fn.args.args[1:]}
        env["self.n_kernels"] = R.const(m)
        env["self.cov"] = ListV([R.sym(f"self.cov[{i_}]") for i_ in range(m)])
        env["self.cov_slc"] = ListV([R.sym(f"self.cov_slc[{i_}]") for i_ in range(m)])
        env["self.cp_slc"] = ListV([R.sym(f"self.cp_slc[{i_}]") for i_ in range(m - 1)])
        try:
            results[mname] = ex.run(f2.body, env)
        except Unsupported as e:
            raise AnalysisError(f"ChangePoint.{mname} (unrolled for {m} kernels): {e}")
    # values
    for mname, res in results.items():
        val = res.items[0] if isinstance(res, TupleV) else res
        ok = isinstance(val, R) and val.eq(want_val)
        out.append(struct_ob("changepoint-instance", qual(cp, cp.methods[mname]) + f"[value, {m} kernels]", ok,
                             f"with {m} kernels the covariance must be sum_i K_i c_i, c = (a_1, b_1 a_2, .., b_last): code has {str(val)[:300]}",
                             COV, cp.methods[mname].lineno, tier="F"))
    # gradients
    res = results["covariance_and_gradients"]
    if not (isinstance(res, TupleV) and len(res.items) == 2 and isinstance(res.items[1], ListV)):
        raise AnalysisError("ChangePoint.covariance_and_gradients does not return (K, [gradients])")
    grads = res.items[1].items
    want = [R.sym(f"dK{i}") * c[i] for i in range(m)]
    for k in range(m - 1):
        for j in range(2):
            d = anf.diff(want_val, ("sym", f"W{k}[@r]")) * R.sym(f"dW{k}_{j}[@r]") + anf.diff(want_val, ("sym", f"W{k}[@c]")) * R.sym(f"dW{k}_{j}[@c]")
            want.append(d)
    labels = [f"kernel {i} parameters" for i in range(m)] + [f"change-point {k} {'location' if j == 0 else 'width'}" for k in range(m - 1) for j in range(2)]
    if len(grads) != len(want):
        out.append(struct_ob("changepoint-instance", qual(cp, cp.methods["covariance_and_gradients"]) + f"[gradients, {m} kernels]", False,
                             f"{len(grads)} gradient entries for {len(want)} parameters", COV, cp.methods["covariance_and_gradients"].lineno, tier="F"))
    else:
        bad = [(labels[i], grads[i], want[i]) for i in range(len(want)) if not (isinstance(grads[i], R) and grads[i].eq(want[i]))]
        msg = ""
        if bad:
            lab, g_, w_ = bad[0]
            msg = (f"with {m} kernels the gradient entry for `{lab}` is not the derivative of the covariance: code has {str(g_)[:260]} but the "
                   f"derivative is {str(w_)[:260]}" + (f" (+{len(bad) - 1} more entries)" if len(bad) > 1 else ""))
        out.append(struct_ob("changepoint-instance", qual(cp, cp.methods["covariance_and_gradients"]) + f"[gradients, {m} kernels]", not bad, msg,
                             COV, cp.methods["covariance_and_gradients"].lineno, tier="F", slots={"entries": len(want)}))
    return out


def _changepoint(prog, cp):
    out = []
    # aliasing hazard first: it is decidable whatever shape the recurrence has
    for mname in ("__call__", "build_covariance", "covariance_and_gradients"):
        fn = cp.methods.get(mname)
        hits = shared_inplace(fn) if fn is not None else []
        out.append(struct_ob("changepoint-shared-inplace", qual(cp, fn), not hits,
                             "; ".join(h[1] for h in hits) + " - the in-place product is then applied to both kernels' weights "
                             "when the two point sets are the same object", COV, hits[0][0] if hits else fn.lineno))
    if any(not o.ok for o in out):
        return out
    forms = {}
    for mname in ("__call__", "build_covariance", "covariance_and_gradients"):
        fn = cp.methods.get(mname)
        loops = [l for l in fn.body if isinstance(l, ast.For) and U(l.iter) == "self.cp_slc"]
        if len(loops) != 1:
            raise AnalysisError(f"anchor vanished: change-point loop in ChangePoint.{mname}")
        lp = loops[0]
        # idiom: kernel_coeffs[-1] *= A ; kernel_coeffs.append(B)
        aug = [s for s in lp.body if isinstance(s, ast.AugAssign) and U(s.target) == "kernel_coeffs[-1]" and isinstance(s.op, ast.Mult)]
        app = [s for s in lp.body if isinstance(s, ast.Expr) and isinstance(s.value, ast.Call)
               and U(s.value.func) == "kernel_coeffs.append"]
        init = [s for s in fn.body if isinstance(s, ast.Assign) and U(s.targets[0]) == "kernel_coeffs"]
        ok_idiom = (len(aug) == 1 and len(app) == 1 and len(init) == 1 and U(init[0].value) == "[1.0]"
                    and lp.body.index(aug[0]) < lp.body.index(app[0]))
        ex = Expander(prog, cp.module, cp)
        ex.scalar_names = {"theta[slc][0]", "theta[slc][1]"}
        ex.ctor_methods = ("__init__", "pass_spatial_data")
        ex.opaque_self_attrs = {"axis", "cp_slc", "cov_slc", "cov", "n_kernels"}
        env = {"theta": R.sym("theta")}
        if mname == "__call__":
            env[fn.args.args[1].arg] = R.sym("x")
            env[fn.args.args[2].arg] = R.sym("x")

        def hook(e, node, env_):
            f = U(node.func)
            if f == "self.logistic_and_gradient":
                w = e.inline(cp.module, cp, cp.methods["logistic"], node, env_)
                return TupleV([w, ListV([R.sym("dw")])])
            return NotImplemented
        ex.call_hook = hook
        e2 = dict(env)
        try:
            for s in lp.body:
                if s is aug[0] if aug else False:
                    break
                ex.exec_stmt(s, e2)
            A = ex.eval(aug[0].value, e2) if aug else None
            B = ex.eval(app[0].value.args[0], e2) if app else None
        except Unsupported as e:
            raise AnalysisError(f"ChangePoint.{mname}: {e}")
        forms[mname] = (A, B, ok_idiom, fn)
        # final combination  sum_i cov_i(...) * coeffs[i]
    ref = forms["build_covariance"]
    w = None
    for mname, (A, B, ok_idiom, fn) in forms.items():
        okA = isinstance(A, R) and isinstance(ref[0], R) and A.eq(ref[0])
        okB = isinstance(B, R) and isinstance(ref[1], R) and B.eq(ref[1])
        out.append(struct_ob("changepoint-siblings", qual(cp, fn), ok_idiom and okA and okB,
                             f"the coefficient recurrence must be `coeffs[-1] *= (1-w)(x)(1-w); coeffs.append(w (x) w)` with the same weights "
                             f"as build_covariance: idiom {ok_idiom}; last-coefficient factor {A} vs {ref[0]}; appended {B} vs {ref[1]}",
                             COV, fn.lineno, tier="F"))
    # the weight is the logistic of the change-point axis with (location, width) = theta[slc]; (1-w)(1-w) and w w
    A, B = ref[0], ref[1]
    ex = Expander(prog, cp.module, cp)
    ex.scalar_names = {"theta[slc][0]", "theta[slc][1]"}
    lg = cp.methods["logistic"]
    ok = False
    try:
        wv = ex.run(lg.body, {lg.args.args[0].arg: R.sym("x[self.axis]"), lg.args.args[1].arg: R.sym("theta[slc]")})
        wr = anf.subst(wv, {("sym", "x[self.axis]"): R.sym("x[self.axis][@r]")})
        wc = anf.subst(wv, {("sym", "x[self.axis]"): R.sym("x[self.axis][@c]")})
        ok = A.eq((1 - wr) * (1 - wc)) and B.eq(wr * wc)
    except Unsupported:
        ok = False
    out.append(struct_ob("changepoint-siblings", qual(cp, cp.methods["build_covariance"]) + "[weights]", ok,
                         f"the two coefficients must be (1-w_r)(1-w_c) and w_r w_c with w = logistic(x[:, axis], theta[slc]); found {A} and {B}",
                         COV, cp.methods["build_covariance"].lineno, tier="F"))
    return out


def _hetero(prog, ci, cag, psd_fn):
    """grads[i] = sigma_sq[i] * dK[i] in parameter order, dK[i] a fresh zero matrix with 2.0 at (i, i)."""
    why = []
    th = cag.args.args[1].arg
    L = Layouts(cag, prog, ci.module, ci)
    rets = L.rz.return_terms()
    g = None
    for name, lay in L.state.items():
        if lay == (("each", ("iter", f"zip(exp(2 * {th}), self.dK)"), "va0 * va1"),) or lay == (("each", ("iter", f"zip(self.dK, exp(2 * {th}))"), "va0 * va1"),):
            g = name
    if g is None:
        why.append("no gradient list of the form [s * dk for s, dk in zip(exp(2 theta), self.dK)]: " + "; ".join(f"{k} = {show(v)}" for k, v in L.state.items()))
    ok_ret = len(rets) == 1 and isinstance(rets[0], ast.Tuple) and len(rets[0].elts) == 2 \
        and pmatch(rets[0].elts[0], f"diag(exp(2 * {th}))") is not None
    if not ok_ret:
        why.append(f"returned value is `{U(rets[0])[:200] if rets else None}`, expected (diag(exp(2 theta)), gradient list)")
    elif g is not None and U(L.rz.returns()[0].value.elts[1]) != g and L.layout_of(L.rz.returns()[0].value.elts[1], L.rz.returns()[0]) != L.state[g]:
        why.append("the returned gradient list is not the paired list")
    # dK: one fresh matrix per parameter with the single entry (i, i) = 2
    P = Layouts(psd_fn, prog, ci.module, ci)
    dk = P.state.get("self.dK")
    loops = [l for l in psd_fn.body if isinstance(l, ast.For) and any(isinstance(n, ast.Call) and U(n.func) == "self.dK.append" for n in ast.walk(l))]
    okd = False
    npar_terms = {"range(self.n_params)"} | {f"range({U(P.rz.term(s_.value, s_))})" for s_ in ast.walk(psd_fn)
                                             if isinstance(s_, ast.Assign) and U(s_.targets[0]) == "self.n_params"}
    if dk is not None and dk is not UNKNOWN and len(dk) == 1 and dk[0][0] == "each" and dk[0][1][0] == "iter" \
            and dk[0][1][1] in npar_terms and len(loops) == 1:
        mat = dk[0][2]
        lp = loops[0]
        iv = U(lp.target)
        sizes = [t_[6:-1] for t_ in npar_terms]
        fresh = [st for st in lp.body if isinstance(st, ast.Assign) and U(st.targets[0]) == mat
                 and any(pmatch(P.rz.term(st.value, st), f"zeros([{a_}, {b_}])") is not None or pmatch(P.rz.term(st.value, st), f"zeros(({a_}, {b_}))") is not None
                         for a_ in sizes for b_ in sizes)]
        stores = [st for st in ast.walk(lp) if isinstance(st, (ast.Assign, ast.AugAssign)) and isinstance(getattr(st, "targets", [getattr(st, "target", None)])[0], ast.Subscript)
                  and U(getattr(st, "targets", [getattr(st, "target", None)])[0].value) == mat]
        okd = (len(fresh) == 1 and len(stores) == 1 and isinstance(stores[0], ast.Assign) and U(stores[0].targets[0].slice) == f"({iv}, {iv})"
               and isinstance(stores[0].value, ast.Constant) and float(stores[0].value.value) == 2.0)
    if not okd:
        why.append(f"self.dK is not [zero matrix with 2.0 at (i, i) for i in range(n_params)], built fresh per parameter: {show(dk)}")
    return not why, "; ".join(why)


def _overflow_safe(prog):
    from .. import lints
    out = []
    for b in ("CovarianceFunction", "MeanFunction"):
        for ci in [prog.cls(b)] + prog.subclasses(b):
            res = {}
            for c in prog.mro(ci):
                for m, fn in c.methods.items():
                    rz0 = Resolver(fn, prog, c.module, c)
                    for st in ast.walk(fn):
                        if isinstance(st, ast.Assign) and len(st.targets) == 1 and isinstance(st.targets[0], ast.Attribute) \
                                and U(st.targets[0].value) == "self":
                            res.setdefault(st.targets[0].attr, []).append(rz0.term(st.value, st))
            for m, fn in ci.methods.items():
                rz = Resolver(fn, prog, ci.module, ci)
                rets = rz.return_terms()
                if not any(isinstance(n, ast.Call) and U(n.func) == "exp" for t in rets for n in ast.walk(t)):
                    continue
                theta = [a.arg for a in fn.args.args if a.arg == "theta"]
                hits = [h for t in rets for h in lints.unsaturated_exp(t, theta, res)]
                msg = ""
                if hits:
                    msg = (f"`{U(hits[0])[:120]}` can exceed the floating-point range for admissible inputs (its argument depends on the "
                           f"data coordinates and is not provably <= 0) and its value reaches the result as a plain factor, not through a "
                           f"denominator: inf * 0 = nan where the true value is 0")
                out.append(struct_ob("overflow-safe", qual(ci, fn), not hits, msg, ci.module.relpath, fn.lineno, tier="F"))
    # positive example
    ex = ast.parse("exp(-z) * (1 / (1 + exp(-z))) ** 2", mode="eval").body
    if len(lints.unsaturated_exp(ex)) != 1:
        raise AnalysisError("overflow lint lost its positive example")
    return out


def _slices_contiguous_by_induction(prog, sb, ln):
    """slice_builder by induction over its loop, whatever locals carry the running offset.  Invariant: every loop-carried local, and
    `<list>[-1].stop`, equals PREV = the stop of the slice appended last.  Base: the list starts as [slice(0, lengths[0])] and every
    carried local starts as lengths[0].  Step (one generic iteration with element length LEN): exactly one slice is appended, it is
    slice(PREV, PREV + LEN), and every carried local ends as PREV + LEN."""
    from ..symx import Expander, TupleV, ListV
    body = [s_ for s_ in sb.body if not (isinstance(s_, ast.Expr) and isinstance(s_.value, ast.Constant))]
    loops = [s_ for s_ in body if isinstance(s_, ast.For)]
    rets = [s_ for s_ in body if isinstance(s_, ast.Return)]
    if len(loops) != 1 or len(rets) != 1 or not isinstance(rets[0].value, ast.Name) or loops[0].orelse:
        return False
    lp, lst = loops[0], rets[0].value.id
    by_index = isinstance(lp.target, ast.Name) and ast.unparse(lp.iter) in (f"range(1, len({ln}))", f"range(1, {ln}.size)")
    if not (isinstance(lp.target, ast.Name) and (U(lp.iter) == f"{ln}[1:]" or by_index)):
        return False
    pre = body[:body.index(lp)]
    if body[body.index(lp) + 1:] != rets:
        return False
    anf.reset()
    ex = Expander(prog, prog.module(COV), None)

    def hook(e, node, env):
        if U(node.func) == "slice" and len(node.args) == 2:
            return TupleV([e.need_r(e.eval(node.args[0], env)), e.need_r(e.eval(node.args[1], env))])
        return NotImplemented
    ex.call_hook = hook
    FIRST = R.sym("FIRST")
    env = {f"{ln}[0]": FIRST}
    try:
        ex.exec_block(pre, env)
        start = env.get(lst)
        if not (isinstance(start, ListV) and len(start.items) == 1 and isinstance(start.items[0], TupleV)
                and start.items[0].items[0].eq(R.const(0)) and start.items[0].items[1].eq(FIRST)):
            return False
        assigned_in_loop = {n.id for b_ in lp.body for n in ast.walk(b_) if isinstance(n, ast.Name) and isinstance(n.ctx, ast.Store)}
        carried = [v for v in assigned_in_loop if v in env]
        if any(not (isinstance(env[v], R) and env[v].eq(FIRST)) for v in carried):
            return False
        PREV, LEN = R.sym("PREV"), R.sym("LEN")
        e2 = {v: PREV for v in carried}
        e2[f"{lst}[-1].stop"] = PREV
        if by_index:
            # iteration i (starting at 1) finds exactly i slices in the list: slices[i - 1] is the one appended last
            iv = lp.target.id
            e2[f"{ln}[{iv}]"] = LEN
            e2[f"{lst}[{iv} - 1].stop"] = PREV
            e2[f"{lst}[-1 + {iv}].stop"] = PREV
        else:
            e2[lp.target.id] = LEN
        e2[lst] = ListV([])
        # names defined before the loop and not changed in it keep their value only if they do not depend on the list
        for k_, v_ in env.items():
            if k_ not in e2 and isinstance(v_, R) and k_ != f"{ln}[0]":
                e2[k_] = v_
        ex2 = Expander(prog, prog.module(COV), None)
        ex2.call_hook = hook
        ex2.exec_block(lp.body, e2)
        out_ = e2.get(lst)
        if not (isinstance(out_, ListV) and len(out_.items) == 1 and isinstance(out_.items[0], TupleV)):
            return False
        a_, b_ = out_.items[0].items
        if not (a_.eq(PREV) and b_.eq(PREV + LEN)):
            return False
        return all(isinstance(e2.get(v), R) and e2[v].eq(PREV + LEN) for v in carried)
    except Unsupported:
        return False


def _pairwise_axes(prog):
    """K = k(u, v) has one row per point of u and one column per point of v: in the returned term (temporaries inlined) every factor
    broadcast down the rows, X[:, None(, :)], is computed from u alone and every factor broadcast along the columns, X[None, :(, :)],
    from v alone, and the term depends on both point sets."""
    out = []
    for kc in prog.subclasses("CovarianceFunction"):
        fn = kc.methods.get("__call__")
        if fn is None or len(fn.args.args) < 4:
            continue
        u, v = fn.args.args[1].arg, fn.args.args[2].arg
        rz = Resolver(fn, prog, kc.module, kc)
        terms = rz.return_terms()
        # accumulated results (kernel_coeffs[-1] *= w1 ...) are not in the return term: look at every right-hand side too
        for st in ast.walk(fn):
            if isinstance(st, (ast.Assign, ast.AugAssign)):
                terms.append(rz.term(st.value, st))
        why = []
        names = set()
        for t in terms:
            names |= {n.id for n in ast.walk(t) if isinstance(n, ast.Name)}
            for n in ast.walk(t):
                if isinstance(n, ast.Subscript) and isinstance(n.slice, ast.Tuple) and len(n.slice.elts) in (2, 3):
                    e = n.slice.elts
                    kind = None
                    if isinstance(e[0], ast.Slice) and isinstance(e[1], ast.Constant) and e[1].value is None:
                        kind = "rows"
                    elif isinstance(e[0], ast.Constant) and e[0].value is None and isinstance(e[1], ast.Slice):
                        kind = "cols"
                    if kind is None:
                        continue
                    inner = {x.id for x in ast.walk(n.value) if isinstance(x, ast.Name)}
                    if kind == "rows" and v in inner and u not in inner:
                        why.append(f"`{U(n)[:70]}` is broadcast down the rows (one entry per point of {u}) but is computed from {v}")
                    if kind == "cols" and u in inner and v not in inner:
                        why.append(f"`{U(n)[:70]}` is broadcast along the columns (one entry per point of {v}) but is computed from {u}")
        if not ({u, v} <= names):
            why.append(f"the result does not depend on both point sets (uses {sorted(names & {u, v})})")
        out.append(struct_ob("pairwise-axes", qual(kc, fn), not why, "; ".join(sorted(set(why))[:2]), COV, fn.lineno, tier="F"))
    return out


def _composite(prog):
    out = []
    cc = prog.cls("CompositeCovariance")
    want = {
        "__call__": "{c}({a}, {b}, {t}[{s}])",
        "build_covariance": "{c}.build_covariance({t}[{s}])",
    }
    for mname, w in want.items():
        fn = cc.methods.get(mname)
        rz = Resolver(fn, prog, cc.module, cc)
        rets = rz.return_terms()
        params = [a.arg for a in fn.args.args[1:]]
        elt = w.format(c="_c", s="_s", t=params[-1], a=params[0] if len(params) > 1 else "", b=params[1] if len(params) > 1 else "")
        ok = len(rets) == 1 and any(pmatch(rets[0], pt) is not None for pt in
                                    (f"sum(({elt} for _c, _s in zip(self.components, self.slices)))",
                                     f"sum([{elt} for _c, _s in zip(self.components, self.slices)])"))
        shown = U(rets[0]) if rets else None
        if not ok and len(rets) == 1 and isinstance(rets[0], ast.Name):
            # the same sum written as an accumulation:  K = zeros(..) ;  for c, s in zip(A, B): K += c(.., theta[s]) ;  return K
            acc = rets[0].id
            from .common import as_augassign
            for l in fn.body:
                if isinstance(l, ast.For) and len(l.body) == 1:
                    l.body[0] = as_augassign(l.body[0])          # K = K + e  is the update  K += e
            loops = [l for l in fn.body if isinstance(l, ast.For) and len(l.body) == 1 and isinstance(l.body[0], ast.AugAssign)
                     and isinstance(l.body[0].op, ast.Add) and U(l.body[0].target) == acc]
            inits = [st for st in fn.body if isinstance(st, ast.Assign) and U(st.targets[0]) == acc]
            zero = len(inits) == 1 and ((isinstance(inits[0].value, ast.Call) and U(inits[0].value.func) in ("zeros", "zeros_like"))
                                        or (isinstance(inits[0].value, ast.Constant) and inits[0].value.value in (0, 0.0)))
            others = [st for st in ast.walk(fn) if isinstance(st, (ast.Assign, ast.AugAssign)) and acc in
                      (U(st.targets[0]) if isinstance(st, ast.Assign) else U(st.target)).split("[")[0].split(".")[:1]]
            if len(loops) == 1 and zero and len(others) == 2 and isinstance(loops[0].target, ast.Tuple) and len(loops[0].target.elts) == 2:
                lp = loops[0]
                cn, sn_ = (U(e) for e in lp.target.elts)
                it = rz.term(lp.iter, lp)
                pair = pmatch(it, "zip(_A, _B)")
                got_elt = U(lp.body[0].value)
                want_elt = w.format(c=cn, s=sn_, t=params[-1], a=params[0] if len(params) > 1 else "", b=params[1] if len(params) > 1 else "")
                en_ = pmatch(it, "enumerate(_A)")
                if pair is None and en_ is not None:
                    # for i, c in enumerate(A): ... B[i] ...   pairs A and B position by position as zip(A, B) does
                    idx_uses = {ast.unparse(x.value) for x in ast.walk(lp.body[0].value) if isinstance(x, ast.Subscript) and ast.unparse(x.slice) == cn}
                    if len(idx_uses) == 1:
                        B_ = next(iter(idx_uses))
                        pair = {"_A": en_["_A"], "_B": B_}
                        want_elt = w.format(c=sn_, s=f"{B_}[{cn}]", t=params[-1], a=params[0] if len(params) > 1 else "", b=params[1] if len(params) > 1 else "")
                if pair is None:
                    shown = f"accumulation over `{U(it)}`"
                elif (pair["_A"], pair["_B"]) != ("self.components", "self.slices"):
                    shown = (f"accumulation over zip({pair['_A']}, {pair['_B']}): the slices in self.slices are laid out for self.components, "
                             f"position by position - pairing them with another list gives a component the parameters of another one")
                elif U(ast.parse(got_elt, mode='eval').body) != U(ast.parse(want_elt, mode='eval').body):
                    shown = f"accumulated term `{got_elt}` is not `{want_elt}`"
                else:
                    ok = True
            else:
                raise AnalysisError(f"composite-structure: {qual(cc, fn)} returns `{acc}`, which is built by statements that are neither the sum "
                                    f"over zip(self.components, self.slices) nor its accumulation loop - not decided")
        out.append(struct_ob("composite-structure", qual(cc, fn), ok,
                             f"a sum of kernels must add each component evaluated on its own slice of theta: `{shown}`",
                             COV, fn.lineno, tier="F" if isinstance(rets[0] if rets else None, ast.Name) else "S"))
    fn = cc.methods.get("covariance_and_gradients")
    th = fn.args.args[1].arg
    L = Layouts(fn, prog, cc.module, cc)
    res = [k for k, v in L.state.items() if v == (("each", ("iter", "zip(self.components, self.slices)"), f"va0.covariance_and_gradients({th}[va1])"),)]
    why = []
    if len(res) != 1:
        why.append("no list of per-component (value, gradients) results over zip(self.components, self.slices): "
                   + "; ".join(f"{k} = {show(v)}" for k, v in L.state.items()))
    else:
        r0 = res[0]
        gl = [k for k, v in L.state.items() if v == (("flat", ("iter", r0), (("splice", "va0[1]"),)),)]
        rets = L.rz.returns()
        okr = False
        if len(rets) == 1 and isinstance(rets[0].value, ast.Tuple) and len(rets[0].value.elts) == 2:
            kv = L.rz.term(rets[0].value.elts[0], rets[0], keep=(r0,))
            okk = any(pmatch(kv, pt) is not None for pt in (f"sum((_r[0] for _r in {r0}))", f"sum([_r[0] for _r in {r0}])"))
            gv = L.layout_of(rets[0].value.elts[1], rets[0])
            okr = okk and gv == (("flat", ("iter", r0), (("splice", "va0[1]"),)),)
            if not okr:
                why.append(f"returned value `{U(kv)[:150]}`, gradient layout {show(gv)}")
        else:
            why.append("return is not (K, gradients)")
    out.append(struct_ob("composite-structure", qual(cc, fn), not why,
                         "value = sum of component values; gradients = component gradient lists concatenated in component order: "
                         + "; ".join(why), COV, fn.lineno))
    # composition order: slices, labels, bounds built over self.components in order
    psd = cc.methods.get("pass_spatial_data")
    L = Layouts(psd, prog, cc.module, cc)
    sl = [L.rz.term(st.value, st) for st in ast.walk(psd) if isinstance(st, ast.Assign) and U(st.targets[0]) == "self.slices"]
    ok_s = len(sl) == 1 and pmatch(sl[0], "slice_builder([_c.n_params for _c in self.components])") is not None
    lab = L.state.get("self.hyperpar_labels")
    ok_l = (lab is not None and lab is not UNKNOWN and len(lab) == 1 and lab[0][0] == "flat" and lab[0][1][1] == "self.components"
            and len(lab[0][2]) == 1 and lab[0][2][0][0] == "each"
            and lab[0][2][0][1] == ("iter", ("va1" if lab[0][1][0] == "enum" else "va0") + ".hyperpar_labels") and "vb0" in lab[0][2][0][2])
    out.append(struct_ob("composition-order", qual(cc, psd), ok_s and ok_l,
                         f"slices and labels must be built over the components in order: slices ok {ok_s} "
                         f"(`{U(sl[0])[:120] if sl else None}`); labels = {show(lab)}", COV, psd.lineno))
    eb = cc.methods.get("estimate_hyperpar_bounds")
    L = Layouts(eb, prog, cc.module, cc)
    b = L.state.get("self.bounds")
    ok = b == (("flat", ("iter", "self.components"), (("splice", "va0.bounds"),)),)
    out.append(struct_ob("composition-order", qual(cc, eb), ok, f"bounds must be concatenated over the components in order: {show(b)}", COV, eb.lineno))
    base = prog.cls("CovarianceFunction")
    add = base.methods.get("__add__")
    ra = Resolver(add, prog, base.module, base)
    rets = ra.return_terms()
    oth = add.args.args[1].arg
    ok = len(rets) == 1 and pmatch(rets[0], f"CompositeCovariance([*(self.components if isinstance(self, CompositeCovariance) else [self]), "
                                            f"*({oth}.components if isinstance({oth}, CompositeCovariance) else [{oth}])])") is not None
    if not ok and len(rets) == 1 and isinstance(rets[0], ast.Call) and ast.unparse(rets[0].func) == "CompositeCovariance" \
            and len(rets[0].args) == 1 and isinstance(rets[0].args[0], ast.BinOp) and isinstance(rets[0].args[0].op, ast.Add):
        # the same list written as a concatenation - compared operand by operand, IN ORDER (list + is not commutative)
        def strip(e):
            while isinstance(e, ast.Call) and isinstance(e.func, ast.Name) and e.func.id in ("list", "tuple") and len(e.args) == 1:
                e = e.args[0]
            return ast.unparse(e)
        l_, r_ = strip(rets[0].args[0].left), strip(rets[0].args[0].right)
        ok = (l_ == "self.components if isinstance(self, CompositeCovariance) else [self]"
              and r_ == f"{oth}.components if isinstance({oth}, CompositeCovariance) else [{oth}]")
    out.append(struct_ob("composition-order", qual(base, add), ok,
                         f"k1 + k2 must keep the left operand's components first: `{ast.unparse(rets[0])[:200] if rets else None}`", COV, add.lineno))
    sb = prog.function(COV, "slice_builder")
    L = Layouts(sb, prog, prog.module(COV), None)
    rets = L.rz.returns()
    ln = sb.args.args[0].arg
    lay = L.layout_of(rets[0].value, rets[0]) if len(rets) == 1 else None
    name = U(rets[0].value) if len(rets) == 1 else "?"
    ok = lay in ((("item", f"slice(0, {ln}[0])"), ("each", ("iter", f"{ln}[1:]"), f"slice({name}[-1].stop, {name}[-1].stop + va0)")),)
    if not ok:
        ok = _slices_contiguous_by_induction(prog, sb, ln)
    out.append(struct_ob("composition-order", "inference.gp.covariance.slice_builder", ok,
                         f"slices must be contiguous: start_(k+1) = stop_k, length = the component's parameter count: {show(lay)}", COV, sb.lineno))
    # change-point layout: kernels first, then (location, width) pairs; bounds interleaved the same way
    cp = prog.cls("ChangePoint")
    psd = cp.methods["pass_spatial_data"]
    L = Layouts(psd, prog, cp.module, cp)
    why = []
    counts = [k for k, v in L.state.items() if v == (("each", ("iter", "self.cov"), "va0.n_params"), ("rep", (("item", "2"),), "self.n_kernels - 1"))]
    if len(counts) != 1:
        why.append("parameter counts are not [K.n_params for K in self.cov] + [2] * (n_kernels - 1): "
                   + "; ".join(f"{k} = {show(v)}" for k, v in L.state.items() if "label" not in k))
    else:
        pc = counts[0]
        for attr, sl_ in (("cov_slc", "[:self.n_kernels]"), ("cp_slc", "[self.n_kernels:]")):
            t = [L.rz.term(st.value, st, keep=(pc,)) for st in ast.walk(psd) if isinstance(st, ast.Assign) and U(st.targets[0]) == f"self.{attr}"]
            if not (len(t) == 1 and pmatch(t[0], f"slice_builder({pc}){sl_}") is not None):
                why.append(f"self.{attr} is `{U(t[0]) if t else None}`, expected slice_builder(counts){sl_}")
    lab = L.state.get("self.hyperpar_labels")
    groups = None
    if lab is not None and lab is not UNKNOWN and len(lab) == 1 and lab[0][0] == "flat" and lab[0][2] == (("splice", "va0"),):
        groups = L.state.get(lab[0][1][1])
    okg = (groups is not None and groups is not UNKNOWN and len(groups) == 2
           and groups[0][0] == "each" and groups[0][1][1] == "self.cov" and ".hyperpar_labels" in groups[0][2]
           and groups[1][0] == "each" and groups[1][1] == ("iter", "range(self.n_kernels - 1)"))
    if okg:
        try:
            pair = ast.parse(groups[1][2], mode="eval").body
            okg = isinstance(pair, (ast.List, ast.Tuple)) and len(pair.elts) == 2 and "location" in ast.unparse(pair.elts[0]) \
                and "width" in ast.unparse(pair.elts[1])
        except SyntaxError:
            okg = False
    if not okg and lab is not None and lab is not UNKNOWN and len(lab) == 2:
        # the same thing without the intermediate list of groups: the labels are extended group by group
        k_part, c_part = lab
        okg = (k_part[0] == "flat" and k_part[1][1] == "self.cov" and len(k_part[2]) == 1 and k_part[2][0][0] in ("each", "splice")
               and ".hyperpar_labels" in repr(k_part[2][0])
               and c_part[0] == "flat" and c_part[1] == ("iter", "range(self.n_kernels - 1)") and len(c_part[2]) == 2
               and all(x[0] == "item" for x in c_part[2]) and "location" in c_part[2][0][1] and "width" in c_part[2][1][1])
    if not okg:
        why.append(f"labels are not the kernels' labels followed by (location, width) per change-point: {show(lab)}; groups {show(groups)}")
    ehb = cp.methods["estimate_hyperpar_bounds"]
    L2 = Layouts(ehb, prog, cp.module, cp)
    b = L2.state.get("self.bounds")
    okb = False
    if b is not None and b is not UNKNOWN and len(b) == 2 and b[0] == ("flat", ("iter", "self.cov"), (("splice", "va0.bounds"),)):
        tail = b[1]
        if tail[0] == "splice" and tail[1] in L2.state:
            tail = L2.state[tail[1]][0] if L2.state[tail[1]] is not UNKNOWN and len(L2.state[tail[1]]) == 1 else tail
        okb = tail == ("zipflat", ("self.location_bounds", "self.width_bounds")) or \
            tail == ("flat", ("iter", "zip(self.location_bounds, self.width_bounds)"), (("item", "va0"), ("item", "va1")))      # the same interleaving, appended pair by pair
    if not okb:
        why.append(f"bounds are not the kernels' bounds followed by interleaved (location, width) bounds: {show(b)}")
    # logistic(x, theta): theta[0] is the location, theta[1] the width
    lg = cp.methods["logistic"]
    ex = Expander(prog, cp.module, cp)
    okz = False
    try:
        wv = ex.run(lg.body, {lg.args.args[0].arg: R.sym("X"), lg.args.args[1].arg: R.sym("T")})
        z = (R.sym("X") - R.sym("T[0]")).div(R.sym("T[1]"))
        okz = wv.eq(R.const(1).div(R.const(1) + anf.exp_(-z)))
    except Unsupported:
        okz = False
    if not okz:
        why.append("logistic(x, theta) is not 1 / (1 + exp(-(x - theta[0]) / theta[1]))")
    out.append(struct_ob("composition-order", qual(cp, psd), not why,
                         "change-point parameters must be laid out kernels first, then (location, width) per change-point, in slices, "
                         "labels, bounds and in logistic(x, theta) (theta[0] location, theta[1] width): " + "; ".join(why), COV, cp.node.lineno))
    return out


def _means(prog):
    out = []
    for mc in prog.subclasses("MeanFunction"):
        call, bm, mg = mc.methods.get("__call__"), mc.methods.get("build_mean"), mc.methods.get("mean_and_gradients")
        if not (call and bm and mg):
            continue
        def mk():
            ex = Expander(prog, mc.module, mc)
            ex.ctor_methods = ("__init__", "pass_spatial_data")
            ex.scalar_names = {"theta[0]"}
            ex.opaque_self_attrs = {"lin_slc", "quad_slc", "n_data"}
            ex.array_pred = lambda a: a[0] == "sym" and a[1] != "theta[0]"
            ex.n_atom = R.sym("d")
            ex.on_for = lambda node, env: "skip"      # loops only fill the gradient list, whose layout is decided separately
            return ex
        theta = R.sym("theta")
        ex = mk()
        vb = guard(lambda: ex.run(bm.body, {bm.args.args[1].arg: theta}))
        ex = mk()
        vc = guard(lambda: ex.run(call.body, {call.args.args[1].arg: R.sym("x"), call.args.args[2].arg: theta}))
        def untag(v):
            # the broadcasting tag ([@c] / [@r]: `x_mean[None, :]`) is dropped; the axis of a mean is part of the function and stays
            # (`mean[axis=0]` and `mean` are different functions)
            m_ = {a: R.atom(("fn", a[1].replace("[@c]", "").replace("[@r]", ""), a[2])) for a in v.all_atoms()
                  if a[0] == "fn" and a[1].startswith("mean") and ("[@c]" in a[1] or "[@r]" in a[1])}
            return anf.subst(v, m_) if m_ else v
        vb, vc = untag(vb), untag(vc)
        out.append(formula_ob("mean-sibling", qual(mc, bm), vb, vc, MEAN, bm.lineno,
                              what="build_mean = __call__ evaluated on the data points"))
        ex = mk()
        res = guard(lambda: ex.run(mg.body, {mg.args.args[1].arg: theta}))
        ok_val = isinstance(res, TupleV) and isinstance(res.items[0], R) and untag(res.items[0]).eq(vb)
        # gradient list: [ones] + rows of dx.T (+ rows of dx_sqr.T): d value / d theta_k
        Lm = Layouts(mg, prog, mc.module, mc)
        rets_ = Lm.rz.returns()
        glay = None
        if len(rets_) == 1 and isinstance(rets_[0].value, ast.Tuple) and len(rets_[0].value.elts) == 2:
            glay = Lm.layout_of(rets_[0].value.elts[1], rets_[0])
        want_lay = {"ConstantMean": (("item", "ones(self.n_data)"),),
                    "LinearMean": (("item", "ones(self.n_data)"), ("splice", "self.dx.T")),
                    "QuadraticMean": (("item", "ones(self.n_data)"), ("splice", "self.dx.T"), ("splice", "self.dx_sqr.T"))}.get(mc.name)
        okg = want_lay is not None and glay == want_lay
        # derivative check of the generic entries through the value expression
        d0 = anf.diff(vb, ("sym", "theta[0]"))
        okd = d0.eq(R.const(1))
        # the slices the value is built with lie in the order of the gradient list: the block that multiplies the first spliced table
        # starts at 1 (right after the constant) and each further block starts where the previous one stops
        psd = mc.methods.get("pass_spatial_data")
        splices = [p_[1] for p_ in (want_lay or ()) if p_[0] == "splice"]
        if psd is not None and splices and okg:
            rzp = Resolver(psd, prog, mc.module, mc)
            slc_def = {}
            for st_ in ast.walk(psd):
                if isinstance(st_, ast.Assign) and len(st_.targets) == 1 and isinstance(st_.targets[0], ast.Attribute) and U(st_.targets[0].value) == "self" \
                        and isinstance(st_.value, ast.Call) and U(st_.value.func) == "slice" and len(st_.value.args) == 2:
                    slc_def[st_.targets[0].attr] = tuple(rzp.term(a_, st_) for a_ in st_.value.args)
            rzb = Resolver(bm, prog, mc.module, mc)
            tb = rzb.return_terms()
            order_why = []
            prev_stop = None
            for tab in splices:
                base = tab[:-2] if tab.endswith(".T") else tab
                used, bounds_ = None, None
                for x in ast.walk(tb[0]) if len(tb) == 1 else []:
                    if isinstance(x, (ast.Call, ast.BinOp)):
                        args_ = x.args if isinstance(x, ast.Call) and U(x.func) == "dot" and len(x.args) == 2 else \
                            [x.left, x.right] if isinstance(x, ast.BinOp) and isinstance(x.op, ast.MatMult) else None
                        if args_ and U(args_[0]) == base and isinstance(args_[1], ast.Subscript) and isinstance(args_[1].slice, ast.Attribute) \
                                and U(args_[1].slice.value) == "self" and args_[1].slice.attr in slc_def:
                            used, bounds_ = "self." + args_[1].slice.attr, slc_def[args_[1].slice.attr]
                        elif args_ and U(args_[0]) == base and isinstance(args_[1], ast.Subscript) and isinstance(args_[1].slice, ast.Slice) \
                                and args_[1].slice.step is None and args_[1].slice.lower is not None:
                            used, bounds_ = U(args_[1].slice), (args_[1].slice.lower, args_[1].slice.upper)
                if used is None:
                    raise AnalysisError(f"mean-gradient: the slice that multiplies `{base}` in {qual(mc, bm)} is not identified - not decided")
                try:
                    lo = anf_of(bounds_[0])
                    hi = anf_of(bounds_[1]) if bounds_[1] is not None else None
                except Unsupported as e:
                    raise AnalysisError(f"mean-gradient: slice bounds of {used} outside the algebra ({e})")
                want_lo = R.const(1) if prev_stop is None else prev_stop
                if not lo.eq(want_lo):
                    order_why.append(f"`{base}` is multiplied by theta[{used}] = theta[{lo}:{hi}], but its derivatives sit at position {want_lo} of the gradient list")
                if hi is None and tab != splices[-1]:
                    raise AnalysisError(f"mean-gradient: open slice `{used}` before the last block - not decided")
                prev_stop = hi
            if order_why:
                okg = False
                glay = glay + (("item", "; ".join(order_why)),)
        out.append(struct_ob("mean-gradient", qual(mc, mg), ok_val and okg and okd,
                             f"mean_and_gradients must return build_mean and, in parameter order, d mean / d theta_k "
                             f"(1; the centred coordinates; their squares): value agrees {ok_val}; list order {okg} ({show(glay)}); d/d theta0 = {d0}",
                             MEAN, mg.lineno, tier="F"))
    return out
