"""C04 - parameter limits are never violated (tier S + F).

Decides: every point reaching the user's posterior or a sample store has passed the fold
map when limits are configured; the fold maps are the identity inside and the symmetric
fold outside; the momentum sign flips exactly with the fold parity; the Gibbs limit
switches form a state machine in which an active limit always selects an enforcing proposal.
Does not decide: floating-point rounding at the scale of the limits.
"""
from __future__ import annotations
import ast
from ..model import qual
from ..flow import Enumerator, RETURN, fmt
from ..symx import Expander, TupleV
from ..anf import R, Unsupported
from .. import anf, fsm
from .common import as_augassign, path_statements, path_statements_all, dtype_hazard_obligations, struct_ob, formula_ob, guard, last_return, U
from . import mcmc
from ..report import AnalysisError
from ..term import Resolver, pmatch, find_all, abstract, anf_of

FLOORS = {"float-arithmetic": 1, "must-pass-through": 6, "slot-binding": 3, "hmc-posterior-args": 5, "hmc-reflect-order": 1,
          "fold-form": 8, "start-validated": 4, "limit-fsm": 1, "reject-leaves-limits": 2, "limits-stored": 3}
UTIL = "inference/mcmc/utilities.py"


def run(prog, tier):
    anf.reset()
    obs, info = [], []
    unroll = 3 if tier == "thorough" else 2

    # ---------------------------------------------------------------- must-pass-through: PCA
    c, fn = prog.method("PcaChain", "take_step")
    rel = c.module.relpath
    for call in mcmc.posterior_calls(fn):
        arg = call.args[0]
        ok, why = _from_process_proposal(fn, arg, call.lineno)
        obs.append(struct_ob("must-pass-through", qual(c, fn) + "[posterior]", ok,
                             f"the point handed to the posterior must be the output of self.process_proposal with no "
                             f"arithmetic afterwards: {why}", rel, call.lineno))
    # the stored point is the evaluated point (provenance shared with C03)
    st = mcmc.derive_stores(prog, "PcaChain")
    classify, compound = mcmc.make_classifier(st)
    en = Enumerator(classify, compound, None, unroll=1)
    s_ev = [e for ev, s in en.function(fn) if s == RETURN for e in ev if e[0] == "APPEND_S"]
    ok, why = False, "no sample append found"
    if s_ev:
        src = mcmc.resolve_name(fn, ast.parse(s_ev[0][2], mode="eval").body, s_ev[0][1])
        ok, why = _from_process_proposal(fn, src, s_ev[0][1])
    obs.append(struct_ob("must-pass-through", qual(c, fn) + "[store]", ok,
                         f"the stored point must be the folded point: {why}", rel, fn.lineno))

    # ---------------------------------------------------------------- must-pass-through: Metropolis / Gibbs
    # the limits of these chains live in each Parameter's `proposal` slot (decided by the state machine below): every proposed
    # coordinate must come out of THAT slot, looked up when the step is taken (a slot value cached earlier misses later switches)
    c, fn = prog.method("MetropolisChain", "take_step")
    rz_m = Resolver(fn, prog, c.module, c)
    for call in mcmc.posterior_calls(fn):
        t_ = rz_m.term(call.args[0], rz_m.stmt_of(call))
        okm = any(pmatch(t_, pt) is not None for pt in ("array([_p.proposal() for _p in self.params])", "[_p.proposal() for _p in self.params]",
                                                        "asarray([_p.proposal() for _p in self.params])",
                                                        "array([_p.proposal() for _p in self.params], dtype=_d)"))
        obs.append(struct_ob("must-pass-through", qual(c, fn) + "[posterior]", okm,
                             f"the proposed point must be [p.proposal() for p in self.params], each coordinate drawn through its parameter's "
                             f"own proposal slot at step time: `{U(t_)[:160]}`", c.module.relpath, call.lineno))
    c, fn = prog.method("GibbsChain", "take_step")
    for call in mcmc.posterior_calls(fn):
        pt_ = call.args[0]
        okg, whyg = False, f"posterior argument `{U(pt_)}`"
        if isinstance(pt_, ast.Name):
            stores_ = [s_ for s_ in ast.walk(fn) if isinstance(s_, ast.Assign) and isinstance(s_.targets[0], ast.Subscript)
                       and U(s_.targets[0].value) == pt_.id]
            loops_ = [l_ for l_ in ast.walk(fn) if isinstance(l_, ast.For) and stores_ and any(x is stores_[0] for x in ast.walk(l_))]
            if len(stores_) == 1 and loops_:
                lp_ = loops_[0]
                it_ = U(lp_.iter)
                tg_ = [U(e) for e in lp_.target.elts] if isinstance(lp_.target, ast.Tuple) else [U(lp_.target)]
                v_ = stores_[0].value
                okg = (it_ == "enumerate(self.params)" and len(tg_) == 2 and U(stores_[0].targets[0].slice) == tg_[0]
                       and isinstance(v_, ast.Call) and U(v_.func) == f"{tg_[1]}.proposal" and not v_.args)
                whyg = f"coordinate store `{U(stores_[0])}` in the loop over `{it_}`"
        obs.append(struct_ob("must-pass-through", qual(c, fn) + "[posterior]", okg,
                             f"each coordinate of the proposed point must be p.proposal() of its own parameter, drawn at step time: {whyg}",
                             c.module.relpath, call.lineno))

    # ---------------------------------------------------------------- must-pass-through: Ensemble
    c, pfn = prog.method("EnsembleSampler", "__proposal")
    rel = c.module.relpath
    ret = last_return(pfn)
    ok, why = False, "return is not (proposal, z)"
    if ret is not None and isinstance(ret.value, ast.Tuple):
        ok, why = _from_process_proposal(pfn, ret.value.elts[0], ret.lineno)
    obs.append(struct_ob("must-pass-through", qual(c, pfn), ok,
                         f"the proposal returned must be the output of self.process_proposal: {why}", rel, pfn.lineno))
    c, aw = prog.method("EnsembleSampler", "__advance_walker")
    pcs = mcmc.posterior_calls(aw)
    ok, why = False, f"{len(pcs)} posterior calls"
    if len(pcs) == 1:
        rz_ = Resolver(aw, prog, c.module, c)
        pt = rz_.term(pcs[0].args[0], rz_.stmt_of(pcs[0]))
        stores = [n for n in ast.walk(aw) if isinstance(n, ast.Assign) and isinstance(n.targets[0], ast.Subscript)
                  and U(n.targets[0].value) == "self.walker_positions"]
        st_terms = [rz_.term(n.value, n) for n in stores]
        # the evaluated point is element 0 of what __proposal returned, and the stored point is that same term
        okp = any(pmatch(pt, pat) is not None for pat in ("self.__proposal(_i)[0]", "self._EnsembleSampler__proposal(_i)[0]"))
        ok = okp and len(stores) == 1 and U(st_terms[0]) == U(pt)
        why = f"posterior evaluated at `{U(pt)[:120]}`; stored `{[str(U(t))[:120] for t in st_terms]}`"
    obs.append(struct_ob("must-pass-through", qual(c, aw), ok,
                         "the walker must evaluate and store the very point __proposal returned: " + why, rel, aw.lineno))

    # ---------------------------------------------------------------- slot binding
    for cname, slot, bounded, free in (("PcaChain", "process_proposal", "self.bounds.reflect", "self.pass_through"),
                                       ("EnsembleSampler", "process_proposal", "self.bounds.reflect", "self.pass_through"),
                                       ("HamiltonianChain", "run_leapfrog", "self.bounded_leapfrog", "self.standard_leapfrog")):
        obs.append(_slot_binding(prog, cname, slot, bounded, free))
        # the hook is selected where the limits are stored, in the constructor: limits installed anywhere else (`chain.bounds = bounds`
        # in a loader, a setter) leave the hook that was selected without them
        ci_ = prog.cls(cname)
        late = []
        for c_ in [ci_] + list(prog.subclasses(cname)) + [x for x in prog.mro(ci_) if x is not ci_]:
            for mname_, fn_ in c_.methods.items():
                if mname_ == "__init__":
                    continue
                slot_set = any(isinstance(st_, ast.Assign) and isinstance(st_.targets[0], ast.Attribute) and st_.targets[0].attr == slot for st_ in ast.walk(fn_))
                for st_ in ast.walk(fn_):
                    tgs_ = st_.targets if isinstance(st_, ast.Assign) else [st_.target] if isinstance(st_, (ast.AugAssign, ast.AnnAssign)) else []
                    for t_ in tgs_:
                        for el_ in (t_.elts if isinstance(t_, ast.Tuple) else [t_]):
                            if isinstance(el_, ast.Attribute) and el_.attr == "bounds" and not slot_set:
                                late.append(f"{c_.name}.{mname_} line {st_.lineno}: `{U(st_)[:70]}`")
                    if isinstance(st_, ast.Expr) and isinstance(st_.value, ast.Call) and U(st_.value.func) == "setattr" and len(st_.value.args) >= 2 \
                            and U(st_.value.args[1]) in ("'bounds'", '"bounds"') and not slot_set:
                        late.append(f"{c_.name}.{mname_} line {st_.lineno}: `{U(st_)[:70]}`")
        obs.append(struct_ob("slot-binding", f"{ci_.module.name}.{cname}[limits-set-with-hook]", not late,
                             f"`bounds` is stored outside the constructor without `{slot}` being re-selected: " + "; ".join(late[:2]),
                             ci_.module.relpath, ci_.node.lineno, tier="F"))

    # ---------------------------------------------------------------- HMC posterior arguments
    obs.extend(_hmc_posterior_args(prog))

    # ---------------------------------------------------------------- hmc-reflect-order
    c, bl = prog.method("HamiltonianChain", "bounded_leapfrog")
    obs.append(_reflect_order(c, bl, unroll))

    # ---------------------------------------------------------------- fold-form
    obs.extend(_fold_forms(prog))

    # ---------------------------------------------------------------- start-validated
    obs.extend(_start_validated(prog))

    # ---------------------------------------------------------------- limit-fsm
    ob, extra = _limit_fsm(prog)
    obs.append(ob)

    # ---------------------------------------------------------------- the limits stored are the limits given
    obs.extend(_limits_stored(prog))
    # ---------------------------------------------------------------- a rejected request leaves the limits in force untouched
    obs.extend(_reject_leaves_state(prog, "Parameter"))

    obs.extend(dtype_hazard_obligations(prog, "float-arithmetic", ['inference/mcmc/utilities.py']))
    from .common import call_order_obligations
    obs.extend(call_order_obligations(prog, "arguments-in-order", ['inference/mcmc/utilities.py']))

    meta = {
        "explanation": "Def-use must-pass-through: every posterior argument and stored point of the bounded samplers resolves to "
                       "the output of the fold hook with no arithmetic afterwards, and the hook is bound to Bounds.reflect exactly "
                       "when bounds are given; path enumeration of the bounded leapfrog shows drift -> reflect -> momentum flip before "
                       "every force evaluation and the return; the fold maps are proven in normal form to satisfy result-lower = rem "
                       "(even fold count) / upper-result = rem (odd), reflection factor 1-2n, width = upper-lower; start points are "
                       "validated; the Parameter limit switches are extracted as a finite state machine and explored exhaustively.",
        "assumptions": ["numpy.divmod(a, b) returns (floor(a/b), a - b*floor(a/b)) with 0 <= rem < b for b > 0"],
        "info": info,
        "extra": extra,
    }
    return obs, FLOORS, meta


# ------------------------------------------------------------------------------------------
def _from_process_proposal(fn, expr, line):
    """expr (a Name or call) resolves, through copies only, to a self.process_proposal(...) call."""
    e = mcmc.unwrap(expr)
    hops = 0
    while isinstance(e, ast.Name) and hops < 5:
        d = mcmc.last_def(fn, e.id, line + 1 if hops == 0 else line)
        if d is None:
            return False, f"`{e.id}` has no definition"
        line = d.lineno
        e = mcmc.unwrap(d.value)
        hops += 1
    if isinstance(e, ast.Call) and U(e.func) == "self.process_proposal":
        return True, ""
    return False, f"resolves to `{U(e)}`"


def _slot_binding(prog, cname, slot, bounded, free):
    ci = prog.cls(cname)
    c, init = prog.method(cname, "__init__")
    rel = c.module.relpath
    # on every constructor path: bounds is None -> slot = free ; bounds given -> slot = bounded and self.bounds is a Bounds
    bpar = "bounds"
    rz_ = Resolver(init, prog, c.module, c)

    def slot_values(assume, target):
        return [str(U(rz_.term(s_.value, s_))) for s_ in path_statements_all(init.body, assume)
                if isinstance(s_, ast.Assign) and U(s_.targets[0]) == target]
    a = slot_values({bpar: True}, f"self.{slot}")
    b = slot_values({bpar: False}, f"self.{slot}")
    bounds_set = slot_values({bpar: False}, "self.bounds")

    def is_bounds_value(v):
        try:
            t_ = ast.parse(v, mode="eval").body
        except SyntaxError:
            return False
        parts = [t_.body, t_.orelse] if isinstance(t_, ast.IfExp) else [t_]
        return all(U(x) == bpar or (isinstance(x, ast.Call) and U(x.func) == "Bounds") for x in parts)
    ok = a == [free] and b == [bounded] and len(bounds_set) >= 1 and all(is_bounds_value(v) for v in bounds_set)
    why = f"unbounded path: {a}; bounded path: {b}; self.bounds <- {[v[:80] for v in bounds_set]}"
    # the free hook is the identity
    fname = free.split(".")[-1]
    fc, ffn = prog.find_method(ci, fname)
    if fname == "pass_through":
        okf = ffn is not None and [U(s) for s in ffn.body] == [f"return {ffn.args.args[-1].arg}"]
        ok = ok and okf
        why += f"; pass_through is identity: {okf}"
    # no other assignment of the slot anywhere
    sites = prog.self_assignments(ci, slot)
    ok = ok and 1 <= len(sites) <= 2
    return struct_ob("slot-binding", qual(c, init) + f"[{slot}]", ok,
                     f"`self.{slot}` must be {bounded} exactly when bounds are given: {why}; assignment sites: {len(sites)}",
                     rel, init.lineno)


def _hmc_posterior_args(prog):
    """Every posterior argument in HamiltonianChain is a state that is inside the box in the bounded
    configuration: the validated start, a stored point, a leapfrog output, or a parameter that the callers
    bind to one of those - with no arithmetic applied to it."""
    out = []
    ci = prog.cls("HamiltonianChain")
    rel = ci.module.relpath
    grad_targets, grad_ext = prog.slot_targets(ci, "grad")
    for mname, fn in ci.methods.items():
        for call in mcmc.posterior_calls(fn):
            arg = call.args[0]
            construct = f"{ci.module.name}.HamiltonianChain.{mname}"
            reach = ""
            if mname == "finite_diff":
                reach = " (reachable in the bounded configuration through the `grad` slot when no gradient is supplied)" \
                    if any(m.name == "finite_diff" for _, m in grad_targets) else ""
            if isinstance(arg, ast.Name):
                d = mcmc.last_def(fn, arg.id, call.lineno)
                params = [a.arg for a in fn.args.args[1:]]
                if d is None and arg.id in params:
                    ok, why = True, f"parameter `{arg.id}`"
                elif d is not None and isinstance(d.value, ast.Call) and U(d.value.func) in (
                        "self.run_leapfrog", "self.bounds.reflect_momenta", "self.bounds.reflect"):
                    ok, why = True, f"output of {U(d.value.func)}"
                elif d is not None and arg.id == "start":
                    # the constructor re-binds `start` through type conversions only
                    convs = [s for s in ast.walk(fn) if isinstance(s, ast.Assign) and U(s.targets[0]) == "start"]
                    # conversions only: array(start) / start.astype(...) / a conditional expression of those - no arithmetic
                    def conv_only(v):
                        if isinstance(v, ast.IfExp):
                            return conv_only(v.body) and conv_only(v.orelse)
                        if isinstance(v, ast.Name):
                            return v.id == "start"
                        if isinstance(v, ast.Call):
                            f_ = U(v.func)
                            return (f_ in ("array", "asarray", "atleast_1d") and v.args and conv_only(v.args[0])) or \
                                (isinstance(v.func, ast.Attribute) and v.func.attr in ("astype", "copy") and conv_only(v.func.value))
                        return False
                    ok = all(conv_only(s.value) for s in convs)
                    why = "validated start (type conversions only)"
                elif d is not None and isinstance(d.value, ast.Call) and isinstance(d.value.func, ast.Attribute) \
                        and d.value.func.attr == "copy" and U(d.value.func.value) in params:
                    ok, why = _probe_inside(fn, arg.id, U(d.value.func.value))
                else:
                    ok, why = False, f"`{arg.id}` defined by `{U(d) if d else None}`"
            else:
                arith = any(isinstance(n, ast.BinOp) for n in ast.walk(arg))
                ok = not arith
                why = f"argument `{U(arg)}` applies arithmetic to a point that may lie on the boundary" if arith else ""
            out.append(struct_ob("hmc-posterior-args", construct, ok,
                                 f"posterior evaluated at a point that did not come out of the fold map: {why}{reach}",
                                 rel, call.lineno, detail=U(arg)))
    return out


def _probe_inside(fn, name, base):
    """Recognised containment argument for a finite-difference probe: `name` is a copy of the in-box point
    `base` with one coordinate moved by h, where in the bounded configuration h = c*width[i] (0 < c <= 1/2)
    and the sign is flipped when base[i] + h would exceed the upper limit.  Then base[i]+h <= upper, or
    base[i]-h > upper-2h >= lower: the probe is inside the closed box for every box and every point in it."""
    mods = [n for n in ast.walk(fn) if isinstance(n, (ast.AugAssign, ast.Assign))
            and any(isinstance(t, ast.Subscript) and isinstance(t.value, ast.Name) and t.value.id == name
                    for t in ([n.target] if isinstance(n, ast.AugAssign) else n.targets))]
    # `probe[i] = base[i] + h` on a copy of base is the update `probe[i] += h`
    step = None
    if len(mods) == 1 and isinstance(mods[0], ast.Assign) and len(mods[0].targets) == 1 and isinstance(mods[0].value, ast.BinOp) \
            and isinstance(mods[0].value.op, ast.Add):
        tg = mods[0].targets[0]
        l_, r_ = mods[0].value.left, mods[0].value.right
        for a_, b_ in ((l_, r_), (r_, l_)):
            if U(a_) == f"{base}[{U(tg.slice)}]" and isinstance(b_, ast.Name):
                step = b_.id
    if len(mods) != 1 or not (step is not None or (isinstance(mods[0], ast.AugAssign) and isinstance(mods[0].op, ast.Add)
                                                   and isinstance(mods[0].value, ast.Name))):
        return False, f"probe `{name}` is modified by {[U(m) for m in mods]}"
    h = step if step is not None else mods[0].value.id
    idx = U((mods[0].targets[0] if step is not None else mods[0].target).slice)
    # the statements executed before the probe is moved, in the bounded configuration (self.bounds is not None), whatever the
    # spelling of the configuration test (guarded overwrite, if / else, early default)
    def block_of(body):
        for st in body:
            if st is mods[0]:
                return body
            for nm in ("body", "orelse", "finalbody"):
                b = getattr(st, nm, None)
                if isinstance(b, list) and b and isinstance(b[0], ast.stmt):
                    r = block_of(b)
                    if r is not None:
                        return r
        return None
    blk = block_of(fn.body)
    if blk is None:
        return False, "probe update not found in a statement list"
    seq = path_statements(blk, {"self.bounds": False})
    if mods[0] not in seq:
        return False, "the probe update is not reached in the bounded configuration"
    seq = seq[:seq.index(mods[0])]
    hdefs = [k for k, st in enumerate(seq) if any(isinstance(x, ast.Name) and x.id == h and isinstance(x.ctx, ast.Store) for x in ast.walk(st))]
    if len(hdefs) < 2:
        return False, "no bounded-configuration definition of the probe step followed by an inward flip"
    a, flip = seq[hdefs[-2]], seq[hdefs[-1]]
    if not isinstance(a, ast.Assign) or not isinstance(flip, ast.If):
        return False, f"bounded configuration: step `{U(a)[:80]}` then `{U(flip)[:80]}`"
    okc = False
    if U(a.targets[0]) == h and isinstance(a.value, ast.BinOp) and isinstance(a.value.op, ast.Mult):
        parts = [a.value.left, a.value.right]
        lit = [p for p in parts if isinstance(p, ast.Constant) and isinstance(p.value, (int, float))]
        oth = [p for p in parts if not isinstance(p, ast.Constant)]
        okc = len(lit) == 1 and 0 < lit[0].value <= 0.5 and len(oth) == 1 and U(oth[0]) == f"self.bounds.width[{idx}]"
    # the flip test, as a value: base[idx] + h > upper[idx] (any spelling: operands in either order, the coordinate held in a local,
    # `upper < ...`) - compared in normal form after inlining temporaries
    okt = False
    try:
        rz = Resolver(fn)
        tt = rz.term(flip.test, flip, keep=(h, base, idx))
        if isinstance(tt, ast.Compare) and len(tt.ops) == 1 and isinstance(tt.ops[0], (ast.Gt, ast.Lt)):
            big, small = (tt.left, tt.comparators[0]) if isinstance(tt.ops[0], ast.Gt) else (tt.comparators[0], tt.left)
            ABS = [(f"{base}[{idx}]", "T_I"), (f"self.bounds.upper[{idx}]", "UP_I")]
            dv = anf_of(abstract(big, ABS)[0]) - anf_of(abstract(small, ABS)[0])
            okt = dv.eq(R.sym("T_I") + R.sym(h) - R.sym("UP_I"))
    except Unsupported:
        okt = False
    okf = (okt and [U(x) for x in flip.body] == [f"{h} = -{h}"] and not flip.orelse)
    later = []
    if okc and okf and not later:
        return True, "inward step of at most half the box width"
    return False, (f"step `{U(a)}` / flip `{U(flip.test)}` is not the recognised containment argument "
                   f"(h = c*width[i], 0<c<=1/2, flipped when {base}[i]+h exceeds the upper limit)")


def _reflect_order(c, fn, unroll):
    rel = c.module.relpath
    t, r = fn.args.args[1].arg, fn.args.args[2].arg

    def classify(node):
        ev = []
        node = as_augassign(node)
        if isinstance(node, ast.AugAssign) and isinstance(node.target, ast.Name):
            if node.target.id == t and isinstance(node.op, ast.Add):
                ev.append(("DRIFT", node.lineno, ""))
            elif node.target.id == r and isinstance(node.op, ast.Mult):
                ev.append(("FLIP", node.lineno, U(node.value)))
            elif node.target.id == r and isinstance(node.op, ast.Add):
                for n in ast.walk(node.value):
                    if isinstance(n, ast.Call) and U(n.func) == "self.grad":
                        ev.append(("GRAD", node.lineno, U(n.args[0])))
                ev.append(("KICK", node.lineno, ""))
        elif isinstance(node, ast.Assign) and isinstance(node.value, ast.Call) \
                and U(node.value.func) == "self.bounds.reflect_momenta" and isinstance(node.targets[0], ast.Tuple):
            a = [U(e) for e in node.targets[0].elts]
            ev.append(("REFLECT", node.lineno, f"{a[0]},{a[1]}<-{U(node.value.args[0])}"))
        elif isinstance(node, ast.Return):
            ev.append(("RET", node.lineno, U(node.value)))
        elif isinstance(node, (ast.Assign, ast.AugAssign)):
            tg = node.targets[0] if isinstance(node, ast.Assign) else node.target
            if any(isinstance(n, ast.Name) and n.id == t for n in ast.walk(tg)):
                ev.append(("TWRITE", node.lineno, U(node)))
        return ev
    en = Enumerator(classify, None, None, unroll=unroll)
    paths = en.function(fn)
    problems = []
    for ev, s in paths:
        seq = [e for e in ev if e[0] in ("DRIFT", "REFLECT", "FLIP", "GRAD", "RET", "TWRITE")]
        for k, e in enumerate(seq):
            if e[0] == "DRIFT":
                nxt = seq[k + 1:k + 3]
                if len(nxt) < 2 or nxt[0][0] != "REFLECT" or nxt[1][0] != "FLIP":
                    problems.append(f"after the position update at line {e[1]} the next events are {fmt(nxt)} "
                                    f"(expected reflect_momenta then the momentum flip)")
                    continue
                tt, ss = nxt[0][2].split("<-")[0].split(",")
                src = nxt[0][2].split("<-")[1]
                if tt != t or src != t:
                    problems.append(f"reflect at line {nxt[0][1]} does not fold `{t}` into `{t}`")
                if nxt[1][2] != ss:
                    problems.append(f"momentum flipped with `{nxt[1][2]}`, not with the factors `{ss}` returned by the fold")
            if e[0] == "TWRITE":
                problems.append(f"position written outside the drift/reflect pair at line {e[1]}")
            if e[0] == "RET" and not e[2].startswith(f"({t},") and not e[2].startswith(f"{t},"):
                problems.append(f"returns `{e[2]}`")
        if problems:
            break
    return struct_ob("hmc-reflect-order", qual(c, fn), not problems and bool(paths), "; ".join(problems[:2]), rel, fn.lineno,
                     slots={"paths": len(paths)})


def _fold_forms(prog):
    out = []
    bc = prog.cls("Bounds")
    for mname in ("reflect", "reflect_momenta"):
        fn = bc.methods.get(mname)
        if fn is None:
            raise AnalysisError(f"anchor vanished: Bounds.{mname}")
        ex = Expander(prog, bc.module, bc)
        theta = R.sym("theta")
        env = {fn.args.args[1].arg: theta}
        res = guard(lambda: ex.run(fn.body, env))
        pos = res.items[0] if isinstance(res, TupleV) else res
        fac = res.items[1] if isinstance(res, TupleV) else None
        # the limits as the constructor stores them (type conversions only)
        lower, upper = guard(lambda: ex.self_attr("lower", {})), guard(lambda: ex.self_attr("upper", {}))
        # identify the divmod atom and the parity atom
        dm = [a for a in pos.all_atoms() if a[0] == "fn" and a[1].startswith("numpy.divmod")]
        par = [a for a in pos.all_atoms() if a[0] == "fn" and a[1] == "mod"]
        construct = qual(bc, fn)
        if not dm or len(par) != 1:
            # decided on the expanded value of the method, not on its spelling: a formula-tier obligation
            out.append(struct_ob("fold-form", construct, False,
                                 f"the fold must be built from an exact divmod(theta - lower, width) and its quotient's parity (a hand-written "
                                 f"floor / multiply / subtract remainder carries a rounding error that grows with the overshoot): {pos}",
                                 UTIL, fn.lineno, tier="F"))
            continue
        args = anf.REG.get(dm[0][2])
        ok_args = args[0].eq(theta - lower) and args[1].eq(upper - lower)
        out.append(struct_ob("fold-form", construct + "[divmod-args]", ok_args,
                             f"divmod must be applied to (theta - lower, upper - lower); is ({args[0]}, {args[1]})", UTIL, fn.lineno))
        q_atom = ("fn", "numpy.divmod#0", dm[0][2])
        rem = R.atom(("fn", "numpy.divmod#1", dm[0][2]))
        pargs = anf.REG.get(par[0][2])
        ok_par = pargs[0].eq(R.atom(q_atom)) and pargs[1].eq(R.const(2))
        n = par[0]
        even = anf.subst(pos, {n: R.const(0)})
        odd = anf.subst(pos, {n: R.const(1)})
        o1 = formula_ob("fold-form", construct + "[even]", even - lower, rem, UTIL, fn.lineno,
                        what="even number of folds: result - lower = remainder (identity inside the box)")
        o2 = formula_ob("fold-form", construct + "[odd]", upper - odd, rem, UTIL, fn.lineno,
                        what="odd number of folds: upper - result = remainder (mirror image)")
        if not ok_par:
            o1 = struct_ob("fold-form", construct + "[even]", False, f"parity is mod({pargs[0]}, {pargs[1]}), not quotient % 2", UTIL, fn.lineno)
        out.extend([o1, o2])
        if fac is not None:
            out.append(formula_ob("fold-form", construct + "[momentum-factor]", fac, R.const(1) - 2 * R.atom(n), UTIL, fn.lineno,
                                  what="momentum reflection factor = 1 - 2 (fold parity)"))
    # sibling: the position returned by reflect_momenta is reflect's
    ex = Expander(prog, bc.module, bc)
    a = guard(lambda: ex.run(bc.methods["reflect"].body, {bc.methods["reflect"].args.args[1].arg: R.sym("theta")}))
    b = guard(lambda: ex.run(bc.methods["reflect_momenta"].body, {bc.methods["reflect_momenta"].args.args[1].arg: R.sym("theta")}))
    out.append(formula_ob("fold-form", qual(bc, bc.methods["reflect_momenta"]) + "[sibling]", b.items[0], a, UTIL,
                          bc.methods["reflect_momenta"].lineno, what="reflect_momenta position = reflect position"))

    # Parameter.boundary_proposal
    pc = prog.cls("Parameter")
    fn = pc.methods.get("boundary_proposal")
    rel = pc.module.relpath
    ifs = [s for s in fn.body if isinstance(s, ast.If) and isinstance(s.test, ast.Compare)
           and isinstance(s.test.comparators[0], ast.Constant) and s.test.comparators[0].value == 0
           and isinstance(s.test.ops[0], ast.Eq)]
    if len(ifs) != 1:
        # no parity switch in the body (the fold is written arithmetically, or delegated to a helper): decide on the expanded
        # value of the method - one exact divmod of (draw - lo, hi - lo), its quotient's parity n, result(n=0) - lo = remainder,
        # hi - result(n=1) = remainder, with lo the effective lower edge of the case and hi the stored upper limit
        def is_nn(n):
            return isinstance(n, (ast.IfExp, ast.If)) and "_non_negative" in U(n.test)
        has_switch = any(is_nn(n) for n in ast.walk(fn))
        for case, label in ([("orelse", "non_negative off"), ("body", "non_negative on")] if has_switch else [("orelse", "")]):
            tag = f"[{label}]" if label else ""
            ex = Expander(prog, pc.module, pc)
            ex.opaque_self_attrs = {"lower", "upper", "width", "samples", "sigma", "rng", "_non_negative", "try_count", "max_tries"}
            ex.on_if = lambda node, env, case=case: case if is_nn(node) else "skip"
            # the stored width is what set_boundaries makes it: upper - lower of the RAW limits (read from its assignments)
            sb_ = pc.methods.get("set_boundaries")
            src_ = {U(s_.targets[0]): U(s_.value) for s_ in ast.walk(sb_) if isinstance(s_, ast.Assign)} if sb_ is not None else {}
            p_ = [a.arg for a in sb_.args.args[1:]] if sb_ is not None else []
            if len(p_) >= 2 and src_.get("self.upper") == p_[1] and src_.get("self.lower") == p_[0] \
                    and src_.get("self.width") in (f"{p_[1]} - {p_[0]}", "self.upper - self.lower"):
                ex.attr_overrides["self.width"] = R.sym("self.upper") - R.sym("self.lower")
            try:
                pos = guard(lambda: ex.run(fn.body, {}))
                if isinstance(pos, TupleV) or not hasattr(pos, "all_atoms"):
                    raise AnalysisError("boundary_proposal does not return a single value")
                dm = [a for a in pos.all_atoms() if a[0] == "fn" and a[1].startswith("numpy.divmod")]
                par = [a for a in pos.all_atoms() if a[0] == "fn" and a[1] == "mod"]
                draw = [a for a in pos.all_atoms() if a[0] == "sym" and a[1].startswith("rng.normal")]
                if not dm or len(par) != 1 or len(draw) != 1 or len({a[2] for a in dm}) != 1:
                    raise AnalysisError(f"neither a parity switch nor one exact divmod fold: {str(pos)[:160]}")
            except AnalysisError as e_:
                # not a shape this rule reads: no verdict on the fold (reported as withheld, exit 2) - the other rules of this
                # property, and the properties that borrow from it, are still evaluated
                prog.residue[qual(pc, fn)] = f"fold written in a form the rule does not read: {e_}"
                out.append(struct_ob("fold-form", qual(pc, fn), False, f"not decided: {e_}", rel, fn.lineno))
                return out
            args = anf.REG.get(dm[0][2])
            prop = R.atom(draw[0])
            lo = prop - args[0]                       # divmod is applied to (draw - lo, width)
            up = R.sym("self.upper")
            okw = args[1].eq(up - lo)
            out.append(struct_ob("fold-form", qual(pc, fn) + "[width]" + tag, okw,
                                 f"the fold period must be upper - lower of the same box: divmod is applied to ({args[0]}, {args[1]}), i.e. "
                                 f"lower edge {lo} and period {args[1]}, but the upper limit is self.upper", rel, fn.lineno))
            want_lo = anf.fn_("max", R.sym("self.lower"), R.const(0)) if label == "non_negative on" else R.sym("self.lower")
            out.append(formula_ob("fold-form", qual(pc, fn) + "[lower-edge]" + tag, lo, want_lo, rel, fn.lineno,
                                  what="lower edge of the fold = the stored lower limit (lifted to 0 when non-negative)"))
            rem = R.atom(("fn", "numpy.divmod#1", dm[0][2]))
            pargs = anf.REG.get(par[0][2])
            ok_par = pargs[0].eq(R.atom(("fn", "numpy.divmod#0", dm[0][2]))) and pargs[1].eq(R.const(2))
            out.append(struct_ob("fold-form", qual(pc, fn) + "[parity]" + tag, ok_par,
                                 f"parity is mod({pargs[0]}, {pargs[1]}), not quotient % 2", rel, fn.lineno))
            out.append(formula_ob("fold-form", qual(pc, fn) + "[even]" + tag, anf.subst(pos, {par[0]: R.const(0)}) - lo, rem, rel, fn.lineno,
                                  what="even: result - lower = (proposal - lower) % width"))
            out.append(formula_ob("fold-form", qual(pc, fn) + "[odd]" + tag, up - anf.subst(pos, {par[0]: R.const(1)}), rem, rel, fn.lineno,
                                  what="odd: upper - result = (proposal - lower) % width"))
        return out
    sw = ifs[0]
    def is_nn_switch(n):
        return isinstance(n, (ast.IfExp, ast.If)) and "_non_negative" in U(n.test) and n is not sw
    has_switch = any(is_nn_switch(n) for n in ast.walk(fn))
    cases = [("orelse", "non_negative off"), ("body", "non_negative on")] if has_switch else [("orelse", "")]
    for case, label in cases:
        ex = Expander(prog, pc.module, pc)
        ex.opaque_self_attrs = {"lower", "upper", "width", "samples", "sigma", "rng", "_non_negative", "try_count", "max_tries"}
        ex.on_if = lambda node, env, case=case: case if is_nn_switch(node) else "skip"
        env = {}
        guard(lambda: ex.run_until(fn.body, env, sw))
        nval = guard(lambda: ex.eval(sw.test.left, env))
        even = guard(lambda: ex.eval(sw.body[0].value, env))
        odd_stmt = sw.orelse[0] if sw.orelse else next((s_ for s_ in fn.body[fn.body.index(sw) + 1:] if isinstance(s_, ast.Return)), None)
        if odd_stmt is None or not isinstance(odd_stmt, ast.Return):
            raise AnalysisError("anchor vanished: odd-parity return of boundary_proposal")
        odd = guard(lambda: ex.eval(odd_stmt.value, env))
        draw = [a for a in even.all_atoms() if a[0] == "sym" and a[1].startswith("rng.normal")]
        # effective lower edge and width as the code defines them
        lo = env.get("lower", R.sym("self.lower"))
        wd = env.get("width", R.sym("self.width"))
        up = R.sym("self.upper")
        tag = f"[{label}]" if label else ""
        if len(draw) == 1:
            prop = R.atom(draw[0])
            d = prop - lo
            q = anf.fn_("floordiv", d, wd)
            rem = anf.fn_("mod", d, wd)
            out.append(formula_ob("fold-form", qual(pc, fn) + "[parity]" + tag, nval, anf.fn_("mod", q, R.const(2)), rel, sw.lineno,
                                  what="fold parity = ((proposal - lower) // width) % 2"))
            out.append(formula_ob("fold-form", qual(pc, fn) + "[even]" + tag, even - lo, rem, rel, sw.lineno,
                                  what="even: result - lower = (proposal - lower) % width"))
            out.append(formula_ob("fold-form", qual(pc, fn) + "[odd]" + tag, up - odd, rem, rel, sw.lineno,
                                  what="odd: upper - result = (proposal - lower) % width"))
        else:
            out.append(struct_ob("fold-form", qual(pc, fn) + tag, False, "cannot identify the normal draw in the fold", rel, fn.lineno))
    # width = upper - lower wherever the box is defined
    sb = pc.methods.get("set_boundaries")
    if "width" in env:
        okw = wd.eq(up - lo)
        wtxt = f"local width = {wd}"
    else:
        src = {U(s.targets[0]): U(s.value) for s in ast.walk(sb) if isinstance(s, ast.Assign)}
        p = [a.arg for a in sb.args.args[1:]]
        okw = (src.get("self.upper") == p[1] and src.get("self.lower") == p[0]
               and src.get("self.width") in (f"{p[1]} - {p[0]}", "self.upper - self.lower"))
        wtxt = f"set_boundaries: {src}"
    out.append(struct_ob("fold-form", qual(pc, fn) + "[width]", okw,
                         f"the fold period must be upper - lower of the same box: {wtxt}", rel, fn.lineno))
    return out


def _inside_all_coordinates(terms, th):
    """The returned term says: for EVERY coordinate lower <= theta and theta <= upper - as one reduced conjunction
    `((t >= lo) & (t <= up)).all()`, as two reductions joined by `and`, with either operand order or a chained comparison."""
    if len(terms) != 1:
        return False
    facts = set()

    def cmp_facts(e):
        if not isinstance(e, ast.Compare):
            return False
        sides = [e.left] + list(e.comparators)
        for op, a, b in zip(e.ops, sides, sides[1:]):
            a_, b_ = U(a), U(b)
            if isinstance(op, ast.GtE):
                a_, b_, op = b_, a_, ast.LtE()
            if not isinstance(op, ast.LtE):
                return False
            facts.add((a_, b_))          # a_ <= b_
        return True

    def elementwise(e):
        if isinstance(e, ast.BinOp) and isinstance(e.op, ast.BitAnd):
            return elementwise(e.left) and elementwise(e.right)
        if isinstance(e, ast.Call) and U(e.func) == "logical_and" and len(e.args) == 2:
            return elementwise(e.args[0]) and elementwise(e.args[1])
        return cmp_facts(e)

    def reduced(e):
        if isinstance(e, ast.BoolOp) and isinstance(e.op, ast.And):
            return all(reduced(v) for v in e.values)
        if isinstance(e, ast.Call) and isinstance(e.func, ast.Attribute) and e.func.attr == "all" and not e.args:
            return elementwise(e.func.value)
        if isinstance(e, ast.Call) and U(e.func) in ("all", "bool") and len(e.args) == 1:
            return reduced(e.args[0]) if U(e.func) == "bool" else elementwise(e.args[0])
        return False
    return reduced(terms[0]) and facts == {("self.lower", th), (th, "self.upper")}


def _start_validated(prog):
    out = []
    for cname, stored in (("PcaChain", "self.get_last()"), ("HamiltonianChain", "start"), ("EnsembleSampler", "v")):
        c, init = prog.method(cname, "__init__")
        rel = c.module.relpath
        ok, why = False, "no validate_start_point call on the bounded path"
        rz_ = Resolver(init, prog, c.module, c)
        # calls reachable when bounds are given and not reachable when they are not
        def calls_under(assume):
            found = []
            for s_ in path_statements_all(init.body, assume):
                for n in ast.walk(s_):
                    if isinstance(n, ast.Call) and U(n.func) == "self.bounds.validate_start_point":
                        found.append(n)
            return found
        calls = calls_under({"bounds": False})
        stray = calls_under({"bounds": True})
        if len(calls) == 1 and not stray:
            call_ = rz_.norm_call(calls[0])
            a = call_.args[0] if call_.args else next((k.value for k in call_.keywords if k.arg == "start"), None)
            at_ = rz_.stmt_of(calls[0])
            if cname == "EnsembleSampler":
                loops = [l for l in ast.walk(init) if isinstance(l, ast.For) and any(x is calls[0] for x in ast.walk(l))]
                ok = (a is not None and len(loops) == 1 and U(rz_.term(loops[0].iter, loops[0])) == "self.walker_positions"
                      and isinstance(a, ast.Name) and U(loops[0].target) == a.id)
                why = f"validates `{U(a) if a is not None else None}` for each row of `{U(loops[0].iter) if loops else None}`"
            else:
                t_ = rz_.term(a, at_) if a is not None else None
                ok = t_ is not None and (U(t_) == stored or U(a) == stored)
                why = f"validates `{U(t_) if t_ is not None else None}` (stored start is `{stored}`)"
        out.append(struct_ob("start-validated", qual(c, init), ok,
                             "with bounds and a start the constructor must validate the stored start: " + why, rel, init.lineno))
    bc = prog.cls("Bounds")
    v = bc.methods.get("validate_start_point")
    ins = bc.methods.get("inside")
    ok = (v is not None and ins is not None
          and any(isinstance(s, ast.If) and U(s.test) == f"not self.inside({v.args.args[1].arg})"
                  and any(isinstance(b, ast.Raise) for b in s.body) for s in v.body)
          and _inside_all_coordinates(Resolver(ins).return_terms(), ins.args.args[1].arg))
    early = []
    if ok:
        # ... on every path: nothing returns before the test is made
        gi_ = next(k_ for k_, s in enumerate(v.body) if isinstance(s, ast.If) and U(s.test) == f"not self.inside({v.args.args[1].arg})")
        early = [x.lineno for s in v.body[:gi_] for x in ast.walk(s) if isinstance(x, ast.Return)]
        ok = not early
    out.append(struct_ob("start-validated", qual(bc, v), ok,
                         "validate_start_point must raise unless lower <= start <= upper for every coordinate"
                         + (f"; line {early[0]} returns before the test is made" if early else ""), UTIL, v.lineno))
    return out


def _limits_stored(prog):
    """Parameter.set_boundaries(lower, upper): on the accepting path self.lower / self.upper are the arguments and self.width is
    their difference (the fold of boundary_proposal is proven for width = upper - lower); the chain-level setters hand the
    request to the parameter it names, with the values given."""
    out = []
    pc = prog.cls("Parameter")
    # the limits are what set_boundaries stored: no other method of the class (the non-negativity switch, a proposal) writes them
    writers = []
    for mname_, fn_ in pc.methods.items():
        if mname_.split(".")[0] in ("__init__", "set_boundaries", "load", "remove_boundaries"):
            continue
        for st_ in ast.walk(fn_):
            tg_ = st_.targets if isinstance(st_, ast.Assign) else [st_.target] if isinstance(st_, (ast.AugAssign, ast.AnnAssign)) else []
            for t_ in tg_:
                for el_ in (t_.elts if isinstance(t_, ast.Tuple) else [t_]):
                    if isinstance(el_, ast.Attribute) and isinstance(el_.value, ast.Name) and el_.attr in ("lower", "upper", "width") \
                            and fn_.args.args and el_.value.id == fn_.args.args[0].arg:
                        writers.append(f"{mname_} line {st_.lineno}: `{U(st_)[:70]}`")
    out.append(struct_ob("limits-stored", f"{pc.module.name}.Parameter[only-set_boundaries-writes-limits]", not writers,
                         "the limits in force are changed outside set_boundaries: " + "; ".join(writers[:2])
                         + " - a later switch of another limit leaves them at values the caller never set", pc.module.relpath, pc.node.lineno, tier="F"))
    sb = pc.methods["set_boundaries"]
    lo, up = sb.args.args[1].arg, sb.args.args[2].arg
    rz = Resolver(sb, prog, pc.module, pc)
    stored = {}
    for st in ast.walk(sb):
        if isinstance(st, ast.Assign) and len(st.targets) == 1 and isinstance(st.targets[0], ast.Attribute) and U(st.targets[0].value) == "self":
            stored.setdefault(st.targets[0].attr, []).append(rz.term(st.value, st))
    why = []
    for attr, want in (("lower", lo), ("upper", up)):
        vals = stored.get(attr, [])
        if len(vals) != 1 or U(vals[0]) != want:
            why.append(f"self.{attr} is set to {[U(v) for v in vals]}, not to `{want}`")
    wv = stored.get("width", [])
    okw = False
    if len(wv) == 1:
        try:
            okw = anf_of(wv[0]).eq(R.sym(up) - R.sym(lo))
        except Unsupported:
            okw = False
    if not okw:
        why.append(f"self.width is {[U(v) for v in wv]}, not `{up} - {lo}`")
    out.append(struct_ob("limits-stored", qual(pc, sb), not why, "; ".join(why), pc.module.relpath, sb.lineno, tier="F"))
    # chain-level delegation
    for cname in ("MetropolisChain",):
        ci = prog.cls(cname)
        for mname in ("set_boundaries", "set_non_negative"):
            fn = ci.methods.get(mname)
            if fn is None:
                raise AnalysisError(f"anchor vanished: {cname}.{mname}")
            idx = fn.args.args[1].arg
            val = fn.args.args[2].arg
            txt = [U(st) for st in ast.walk(fn) if isinstance(st, (ast.Expr, ast.Assign))]
            if mname == "set_non_negative":
                rzc = Resolver(fn, prog, ci.module, ci)
                ok = any(len(st.targets) == 1 and isinstance(st.targets[0], ast.Attribute) and st.targets[0].attr == "non_negative"
                         and U(rzc.term(st.targets[0].value, st)) == f"self.params[{idx}]" and U(rzc.term(st.value, st)) == val
                         for st in ast.walk(fn) if isinstance(st, ast.Assign))
                need = f"self.params[{idx}].non_negative = {val}"
            else:
                rzc = Resolver(fn, prog, ci.module, ci)
                calls = [rzc.term(n, rzc.stmt_of(n)) for n in ast.walk(fn) if isinstance(n, ast.Call)]
                ok = any(pmatch(c_, pt) is not None for c_ in calls for pt in (
                    f"self.params[{idx}].set_boundaries(*{val})", f"self.params[{idx}].set_boundaries({val}[0], {val}[1])")) and any(
                    pmatch(c_, f"self.params[{idx}].remove_boundaries()") is not None for c_ in calls)
                need = f"self.params[{idx}].set_boundaries(*{val}) / .remove_boundaries()"
            out.append(struct_ob("limits-stored", qual(ci, fn), ok,
                                 f"the chain-level request must reach the named parameter with the values given (`{need}`); body: {txt[:3]}",
                                 ci.module.relpath, fn.lineno))
    return out


def _is_reject_arm(stmts):
    """An arm that only reports: warn(..) / raise / pass / bare return - and changes nothing."""
    if not stmts:
        return False
    told = False
    for st in stmts:
        if isinstance(st, ast.Expr) and isinstance(st.value, ast.Call) and U(st.value.func).split(".")[-1] == "warn":
            told = True
        elif isinstance(st, ast.Raise):
            told = True
        elif isinstance(st, ast.Pass) or (isinstance(st, ast.Return) and st.value is None):
            pass
        elif isinstance(st, ast.Expr) and isinstance(st.value, ast.Constant):
            pass
        else:
            return False
    return told


def _self_writers(prog, ci):
    """Methods of the class that store into attributes of self (directly or through another such method)."""
    direct = {}
    for name, fn in ci.methods.items():
        sn = fn.args.args[0].arg if fn.args.args else None
        direct[name] = sn is not None and any(
            isinstance(t, ast.Attribute) and isinstance(t.value, ast.Name) and t.value.id == sn and isinstance(t.ctx, ast.Store)
            for t in ast.walk(fn))
    changed = True
    while changed:
        changed = False
        for name, fn in ci.methods.items():
            if direct[name] or not fn.args.args:
                continue
            sn = fn.args.args[0].arg
            for n in ast.walk(fn):
                if isinstance(n, ast.Call) and isinstance(n.func, ast.Attribute) and isinstance(n.func.value, ast.Name) \
                        and n.func.value.id == sn and direct.get(n.func.attr):
                    direct[name] = changed = True
                    break
    return {k for k, v in direct.items() if v}


def _reject_leaves_state(prog, cname):
    """Every method of the class with a refusing arm (the arm only warns / raises): no attribute of self has been written on
    the way to that arm - a refused request must leave the limits in force exactly as they were."""
    ci = prog.cls(cname)
    rel = ci.module.relpath
    writers = _self_writers(prog, ci)
    out = []

    def stores_of(st, sn):
        hits = []
        for n in ast.walk(st):
            if isinstance(n, ast.Attribute) and isinstance(n.value, ast.Name) and n.value.id == sn and isinstance(n.ctx, ast.Store):
                hits.append(f"{sn}.{n.attr}")
            if isinstance(n, ast.Call) and isinstance(n.func, ast.Attribute) and isinstance(n.func.value, ast.Name) \
                    and n.func.value.id == sn and n.func.attr in writers:
                hits.append(f"{sn}.{n.func.attr}()")
            if isinstance(n, ast.Call) and U(n.func) == "setattr" and n.args and U(n.args[0]) == sn:
                hits.append(f"setattr({sn}, ..)")
        return hits

    def visit(body, prefix, fn, sn, mname):
        for i, st in enumerate(body):
            if isinstance(st, ast.If):
                for arm, other in ((st.body, st.orelse), (st.orelse, st.body)):
                    if _is_reject_arm(arm):
                        early = [h for p_ in prefix + body[:i] for h in stores_of(p_, sn)]
                        out.append(struct_ob(
                            "reject-leaves-limits", f"{ci.module.name}.{cname}.{mname}", not early,
                            f"the request is refused at line {arm[0].lineno} (the arm only reports), but {sorted(set(early))} "
                            f"were already written before the test `{U(st.test)}`: the refused values replace the limits in force "
                            f"while the limit flags stay as they were", rel, st.lineno, detail=f"L{arm[0].lineno - fn.lineno}",
                            slots={"test": U(st.test), "writes_before": sorted(set(early))}))
                visit(st.body, prefix + body[:i], fn, sn, mname)
                visit(st.orelse, prefix + body[:i], fn, sn, mname)
            elif isinstance(st, (ast.For, ast.While, ast.With, ast.Try)):
                for blk in ("body", "orelse", "finalbody"):
                    visit(getattr(st, blk, []) or [], prefix + body[:i], fn, sn, mname)

    for mname, fn in ci.methods.items():
        if mname in ("__init__", "load") or not fn.args.args:
            continue
        if any(isinstance(d, ast.Name) and d.id in ("staticmethod", "classmethod") for d in fn.decorator_list):
            continue
        visit(fn.body, [], fn, fn.args.args[0].arg, mname)
    return out


def _limit_fsm(prog):
    pc = prog.cls("Parameter")
    rel = pc.module.relpath
    attrs = ["proposal", "bounded", "_non_negative"]
    m = fsm.Machine(prog, pc, attrs)
    init_fn = pc.methods["__init__"]
    init = m.run(init_fn, {}, {})[0]
    init = {k: init.get(k, fsm.UNKNOWN) for k in attrs}
    if fsm.UNKNOWN in init.values():
        raise AnalysisError(f"Parameter.__init__ does not assign constants to {attrs}: {init}")

    # the accepting arm of each validity test in set_boundaries: the one whose sibling only reports (warns / raises)
    accept_arm = {}
    for n_ in ast.walk(pc.methods["set_boundaries"]):
        if isinstance(n_, ast.If):
            if _is_reject_arm(n_.orelse):
                accept_arm[U(n_.test)] = True
            elif _is_reject_arm(n_.body):
                accept_arm[U(n_.test)] = False

    def op_set(s):
        # the valid branch (lower < upper); the invalid branch only warns
        return m.run(pc.methods["set_boundaries"], s, {}, choose=lambda t: accept_arm.get(U(t)))

    def op_remove(s):
        return m.run(pc.methods["remove_boundaries"], s, {})

    setter = pc.methods.get("non_negative.setter")
    if setter is None:
        raise AnalysisError("anchor vanished: Parameter.non_negative setter")

    def op_nn(val):
        return lambda s: m.run(setter, s, {setter.args.args[1].arg: val})

    load = pc.methods["load"]

    def op_load(s):
        # a fresh object whose flags are restored from the saved state, then load's proposal selection
        var = None
        for st in load.body:
            if isinstance(st, ast.Assign) and isinstance(st.value, ast.Call) and U(st.value.func) == load.args.args[0].arg:
                var = st.targets[0].id
        fresh = dict(init)
        fresh["bounded"], fresh["_non_negative"] = s["bounded"], s["_non_negative"]
        # interpret the statements of load that follow the flag restoration, with `param` playing self
        tail = [st for st in load.body if isinstance(st, (ast.If, ast.Expr))]
        mm = fsm.Machine(prog, pc, attrs)
        return mm._block(tail, [fresh], {}, var, None, 3)
    ops = {"set_boundaries": op_set, "remove_boundaries": op_remove, "non_negative=True": op_nn(True),
           "non_negative=False": op_nn(False), "save/load": op_load}
    key = lambda s: tuple(str(s[a]) for a in attrs)
    seen, transitions = fsm.explore(init, ops, key)

    # ranges of the proposals, read from the code
    bp = pc.methods["boundary_proposal"]
    # the effective lower edge is max(lower, 0) when non-negativity is in force - as a conditional expression or as an if / else
    def nn_arm(n):
        if isinstance(n, ast.IfExp) and "_non_negative" in U(n.test):
            return n.body
        if isinstance(n, ast.If) and "_non_negative" in U(n.test):
            a_ = [s_ for s_ in n.body if isinstance(s_, ast.Assign)]
            return a_[0].value if len(a_) == 1 else None
        return None
    honours_nn = any(nn_arm(n) is not None and any(pmatch(nn_arm(n), pt) is not None for pt in ("max(self.lower, 0.0)", "max(0.0, self.lower)"))
                     for n in ast.walk(bp))
    ap = pc.methods["abs_proposal"]
    abs_nonneg = any(isinstance(r, ast.Return) and isinstance(r.value, ast.Call) and U(r.value.func) == "abs"
                     for r in ast.walk(ap))
    bad = []
    # every accepted request takes effect: after set_boundaries(valid) the limits are in force, after remove_boundaries they are
    # not, after non_negative = v the flag is v - from every reachable state
    for k, (s, trace) in seen.items():
        for opname, want in (("set_boundaries", ("bounded", True)), ("remove_boundaries", ("bounded", False)),
                             ("non_negative=True", ("_non_negative", True)), ("non_negative=False", ("_non_negative", False))):
            for s2 in ops[opname](dict(s)):
                if s2.get(want[0]) is not want[1]:
                    bad.append((k, (trace or []) + [opname], f"the request has no effect: `{want[0]}` is {s2.get(want[0])} afterwards"))
    for k, (s, trace) in seen.items():
        prop = s["proposal"][1] if isinstance(s["proposal"], tuple) else str(s["proposal"])
        if s["bounded"] is True and prop != "boundary_proposal":
            bad.append((k, trace, "boundaries are in force but the active proposal does not fold into them"))
        elif s["_non_negative"] is True:
            if prop == "abs_proposal" and abs_nonneg:
                continue
            if prop == "boundary_proposal" and honours_nn:
                continue
            bad.append((k, trace, "non-negativity is in force but the active proposal can return negative values"))
    msg = ""
    if bad:
        k, trace, why = bad[0]
        msg = (f"{len(bad)} reachable state(s) violate the invariant; e.g. after {trace or ['construction']} the state is "
               f"(proposal, bounded, non_negative) = {k}: {why}")
    ob = struct_ob("limit-fsm", f"{pc.module.name}.Parameter", not bad, msg, rel, pc.node.lineno,
                   slots={"states": len(seen), "transitions": transitions,
                          "violating": [{"state": k, "trace": t} for k, t, _ in bad]})
    extra = {"fsm_states": len(seen), "fsm_transitions": transitions, "fsm_exhaustive": True,
             "fsm_reachable": sorted(seen)}
    return ob, extra
