"""C01 - MCMC samplers draw from the supplied posterior (tier S + F).

Decides: every accept/reject decision has the Metropolis-Hastings form for the move
proposed; every proposal map has the reversible form its acceptance assumes; tempering
multiplies every log-density exactly once.
Does not decide: convergence, ergodicity, diminishing adaptation, the retry-until-accept
construction, that reflection preserves symmetry (argued on paper in DESIGN.md).
"""
from __future__ import annotations
import ast
from fractions import Fraction
from ..model import qual, get_kw
from ..symx import Expander, CmpV, TupleV
from ..anf import R, Unsupported
from .. import anf
from .common import struct_ob, formula_ob, guard, last_return, U
from . import mcmc
from ..report import AnalysisError
from .hmcmass import momentum_obligations

FLOORS = {"accept-form": 5, "accept-orientation": 5, "accept-shortcut": 4, "temper": 8,
          "new-old-binding": 2, "proposal-symmetric": 4, "stretch": 3, "hmc-fresh-momentum": 1,
          "momentum-samples-kinetic": 3, "reloaded-temperature": 1, "accept-paths": 5, "proposal-inputs-current": 6}

OPAQUE = {"inv_temp", "n_parameters", "n_walkers", "posterior", "rng", "mass", "ES", "params",
          "directions", "max_attempts", "steps", "bounds", "process_proposal", "walker_positions",
          "walker_probs", "probs", "theta", "total_proposals", "failed_updates"}


def uses_draw(node):
    return any(isinstance(n, ast.Call) and U(n.func) == "self.rng.random" for n in ast.walk(node))


def find_accept(fn):
    """(If statement, Compare node with the uniform draw)."""
    hits = []
    for st in ast.walk(fn):
        if isinstance(st, ast.If):
            for n in ast.walk(st.test):
                if isinstance(n, ast.Compare) and len(n.ops) == 1 and (uses_draw(n.left) or uses_draw(n.comparators[0])):
                    hits.append((st, n))
    return hits


def _negations_above(test, node):
    """Number of `not` operators between the root of `test` and `node`."""
    def walk(t, k):
        if t is node:
            return k
        if isinstance(t, ast.UnaryOp) and isinstance(t.op, ast.Not):
            return walk(t.operand, k + 1)
        for c in ast.iter_child_nodes(t):
            r = walk(c, k)
            if r is not None:
                return r
        return None
    r = walk(test, 0)
    return r or 0


def _loop_paths(body):
    """Paths through a retry-loop body: [(conditions, how it ends)] with conditions = [(test node, truth)] and the end one of
    'exit' (break / return: the proposal is accepted), 'retry' (falls off the end or `continue`: the proposal is dropped)."""
    paths = [([], None)]
    for st in body:
        nxt = []
        for conds, end in paths:
            if end is not None:
                nxt.append((conds, end))
                continue
            if isinstance(st, (ast.Break, ast.Return)):
                nxt.append((conds, "exit"))
            elif isinstance(st, ast.Continue):
                nxt.append((conds, "retry"))
            elif isinstance(st, ast.Raise):
                nxt.append((conds, "raise"))
            elif isinstance(st, ast.If):
                for arm, truth in ((st.body, True), (st.orelse, False)):
                    for c2, e2 in _loop_paths(arm):
                        nxt.append((conds + [(st.test, truth)] + c2, e2))
            else:
                nxt.append((conds, None))
        paths = nxt
        if len(paths) > 64:
            raise AnalysisError("retry loop has more than 64 paths")
    return paths


def has_temperature(prog, ci):
    return bool(prog.self_assignments(ci, "inv_temp"))


def expander(prog, ci):
    ex = Expander(prog, ci.module, ci)
    ex.opaque_self_attrs = set(OPAQUE)
    ex.array_pred = lambda a: True
    ex.n_atom = R.sym("self.n_parameters")
    return ex


def posterior_atoms(r):
    return [a for a in r.all_atoms() if a[0] == "fn" and a[1] == "self.posterior"]


def enclosing_loop_body(fn, node):
    """Innermost loop (For/While) whose body contains node; returns the loop node."""
    best = None
    for lp in ast.walk(fn):
        if isinstance(lp, (ast.For, ast.While)) and any(n is node for n in ast.walk(lp)):
            if best is None or lp.lineno >= best.lineno:
                best = lp
    return best


def run(prog, tier):
    # a chain saved at temperature T and reloaded must go on targeting posterior^(1/T): the inverse temperature handed back through
    # the constructor is the one that was saved - the clause C01 shares with C09, decided there
    from .common import borrow
    shared = [o for o in borrow(prog, tier, "C09", {"ctor-arg-roundtrip"}, "reloaded-temperature",
                                "every accept test multiplies the log-density by inv_temp; a reloaded chain with another inv_temp samples another density")
              if "temperature" in o.construct or "inv_temp" in o.construct]
    anf.reset()
    obs, info = [], []
    obs.extend(shared)

    # proposal and accept test of one attempt are computed from ONE generation of the sampler's state (step size, widths, mass):
    # nothing computed before a retry / sweep loop from state the loop adapts is handed on inside it
    from .common import current_state_obligations
    obs.extend(o for o in current_state_obligations(prog, "proposal-inputs-current", [prog.cls(c) for c in mcmc.SAMPLERS],
                                                    "the proposal of a later attempt is built from adaptation state of an earlier one, so it is "
                                                    "not the symmetric / reversible kernel the accept test assumes")
               if o.construct.split(".")[-1] in ("take_step", "__advance_walker", "__advance_all", "advance"))

    sites = [("MetropolisChain", "take_step"), ("GibbsChain", "take_step"), ("PcaChain", "take_step"),
             ("HamiltonianChain", "take_step"), ("EnsembleSampler", "__advance_walker")]
    if tier == "thorough":
        for ci in prog.subclasses("MarkovChain"):
            for m in ("take_step",):
                if m in ci.methods and (ci.name, m) not in sites:
                    sites.append((ci.name, m))

    for cname, mname in sites:
        ci = prog.cls(cname)
        c, fn = prog.method(cname, mname)
        rel = c.module.relpath
        construct = qual(c, fn)
        acc = find_accept(fn)
        if len(acc) != 1:
            raise AnalysisError(f"anchor vanished: {len(acc)} accept tests with a uniform draw in {construct}")
        if_stmt, cmp_node = acc[0]
        ex = expander(prog, ci)
        env = {a.arg: R.sym(a.arg) for a in fn.args.args[1:]}
        # `if <shortcut> or draw < A`: the draw is compared only when the shortcut is false, so a conditional expression on the very
        # same test (`A = 1.0 if uphill else exp(..)`) has the value of its else-arm where the comparison happens
        assumed_false = []
        if isinstance(if_stmt.test, ast.BoolOp) and isinstance(if_stmt.test.op, ast.Or):
            assumed_false = [v for v in if_stmt.test.values if not uses_draw(v)]

        def same_test(a, b):
            if isinstance(a, CmpV) and isinstance(b, CmpV) and a.op == b.op and isinstance(a.left, R) and isinstance(b.left, R) \
                    and isinstance(a.right, R) and isinstance(b.right, R):
                return a.left.eq(b.left) and a.right.eq(b.right)
            return False

        def on_ifexp(node, env_, ex=ex, assumed_false=assumed_false):
            if not isinstance(node, ast.IfExp):
                return None
            try:
                tv = ex.eval(node.test, env_)
                for d in assumed_false:
                    if same_test(tv, ex.eval(d, env_)):
                        return "orelse"
            except Unsupported:
                pass
            return None
        if assumed_false:
            ex.on_if = on_ifexp
        guard(lambda: ex.run_until(fn.body, env, if_stmt))
        cmpv = guard(lambda: ex.eval(cmp_node, env))
        if not (isinstance(cmpv, CmpV) and isinstance(cmpv.left, R) and isinstance(cmpv.right, R)):
            raise AnalysisError(f"accept test of {construct} is not a comparison of two algebraic values")
        left_is_draw = uses_draw(cmp_node.left)
        u, A = (cmpv.left, cmpv.right) if left_is_draw else (cmpv.right, cmpv.left)
        op = cmpv.op if left_is_draw else {"Lt": "Gt", "LtE": "GtE", "Gt": "Lt", "GtE": "LtE"}.get(cmpv.op, cmpv.op)

        # ---- orientation: accept edge taken when u < A (or <=); the edge leaves the retry loop
        body_breaks = any(isinstance(s, (ast.Break, ast.Return)) for s in ast.walk(ast.Module(body=if_stmt.body, type_ignores=[])))
        else_breaks = any(isinstance(s, (ast.Break, ast.Return)) for s in ast.walk(ast.Module(body=if_stmt.orelse, type_ignores=[])))
        negated = _negations_above(if_stmt.test, cmp_node) % 2 == 1
        lt = op in ("Lt", "LtE")
        gt = op in ("Gt", "GtE")
        # the test holds when (u < A) [plain] or when not (u < A) [negated]; the accept edge is the arm that leaves the retry loop
        ok_or = (body_breaks and not else_breaks and ((lt and not negated) or (gt and negated))) or \
                (else_breaks and not body_breaks and ((gt and not negated) or (lt and negated)))
        obs.append(struct_ob("accept-orientation", construct, ok_or,
                             f"the move must be accepted when uniform < A (accept edge = break / return out of the retry loop); "
                             f"test is `{U(if_stmt.test)}` (normalised operator {op}, negated: {negated}, exit in body: {body_breaks}, exit in else: {else_breaks})",
                             rel, if_stmt.lineno, slots={"test": U(if_stmt.test)}))

        # ---- NEW, OLD
        loop = enclosing_loop_body(fn, if_stmt)
        new_name, new_stmt = None, None
        for st in ast.walk(loop if loop is not None else fn):
            if isinstance(st, ast.Assign) and st.lineno < if_stmt.lineno and mcmc.posterior_calls(st.value) \
                    and isinstance(st.targets[0], ast.Name):
                new_name, new_stmt = st.targets[0].id, st
        if new_name is None or new_name not in env:
            raise AnalysisError(f"anchor vanished: no posterior evaluation feeding the accept test in {construct}")
        NEW = env[new_name]
        patoms = posterior_atoms(NEW)
        if len(patoms) != 1:
            raise AnalysisError(f"{construct}: proposed log-probability does not contain exactly one posterior call")
        P = R.atom(patoms[0])
        temp = has_temperature(prog, ci)
        want_new = P * R.sym("self.inv_temp") if temp else P
        obs.append(formula_ob("temper", construct, NEW, want_new, rel, new_stmt.lineno,
                              what="proposed log-probability = posterior(x)" + (" * inv_temp (exactly once)" if temp else
                                                                                " (class has no temperature)")))
        old_sym = R.sym("self.walker_probs[i]") if cname == "EnsembleSampler" else R.sym("self.probs[-1]")
        if cname == "EnsembleSampler":
            old_sym = R.sym(f"self.walker_probs[{fn.args.args[1].arg}]")
        E = guard(lambda: anf.log_(A))
        J = E - (NEW - old_sym)

        # ---- Jacobian / kinetic term per sampler
        if cname == "HamiltonianChain":
            r0 = r = None
            for st in ast.walk(fn):
                if isinstance(st, ast.Assign) and isinstance(st.value, ast.Call):
                    f = U(st.value.func)
                    if f == "self.mass.sample_momentum" and isinstance(st.targets[0], ast.Name):
                        r0 = env.get(st.targets[0].id)
                    if f == "self.run_leapfrog" and isinstance(st.targets[0], ast.Tuple):
                        r = env.get(st.targets[0].elts[1].id)
            if r0 is None or r is None:
                raise AnalysisError(f"anchor vanished: momentum draw / leapfrog call in {construct}")
            kc, kfn = prog.method(cname, "kinetic_energy")

            def K(x):
                e2 = expander(prog, ci)
                return e2.run(kfn.body, {kfn.args.args[1].arg: x})
            want_J = guard(lambda: K(r0) - K(r))
            what = "log A - (NEW - OLD) = K(r0) - K(r)"
        elif cname == "EnsembleSampler":
            z = None
            for st in ast.walk(fn):
                if isinstance(st, ast.Assign) and isinstance(st.value, ast.Call) and U(st.value.func).endswith("__proposal"):
                    if isinstance(st.targets[0], ast.Tuple):
                        z = env.get(st.targets[0].elts[1].id)
                    elif isinstance(st.targets[0], ast.Name):
                        # the pair is kept in one local and taken apart by index: z is its element 1
                        pv = env.get(st.targets[0].id)
                        if isinstance(pv, TupleV) and len(pv.items) == 2:
                            z = pv.items[1]
                        elif isinstance(pv, R):
                            z = guard(lambda: ex.component(pv, 1))
            if z is None:
                raise AnalysisError(f"anchor vanished: stretch factor in {construct}")
            want_J = (R.sym("self.n_parameters") - 1) * anf.log_(z)
            what = "log A - (NEW - OLD) = (n_parameters - 1) log z"
        else:
            want_J = R.const(0)
            what = "log A = NEW - OLD (symmetric proposal)"
        obs.append(formula_ob("accept-form", construct, J, want_J, rel, if_stmt.lineno, what=what))

        # ---- every way through the retry loop: accepted through the test, accepted because A >= 1, or rejected by the test
        if loop is not None:
            why_p = []
            for conds, end in _loop_paths(loop.body):
                has_test = [(t, tr) for t, tr in conds if any(x is cmp_node for x in ast.walk(t))]
                if end == "exit" and not has_test:
                    # an unconditional accept: one of its conditions must say A >= 1
                    good = False
                    for t, tr in conds:
                        k = 0
                        while isinstance(t, ast.UnaryOp) and isinstance(t.op, ast.Not):
                            t, k = t.operand, k + 1
                        truth = tr if k % 2 == 0 else not tr
                        if isinstance(t, ast.Compare) and len(t.ops) == 1:
                            try:
                                l_ = ex.eval(t.left, env)
                                r__ = ex.eval(t.comparators[0], env)
                            except Unsupported:
                                continue
                            if not (isinstance(l_, R) and isinstance(r__, R)):
                                continue
                            o_ = type(t.ops[0]).__name__
                            if not truth:
                                o_ = {"Gt": "LtE", "GtE": "Lt", "Lt": "GtE", "LtE": "Gt"}.get(o_, o_)
                            d_ = (l_ - r__) if o_ in ("Gt", "GtE") else (r__ - l_) if o_ in ("Lt", "LtE") else None
                            if d_ is not None and (d_.eq(E) or (d_ + 1).eq(A) or d_.eq(A - 1)):
                                good = True
                    if not good:
                        why_p.append(f"a proposal is accepted without the test on the path {[('' if tr else 'not ') + U(t)[:50] for t, tr in conds]}, "
                                     f"whose conditions do not imply A >= 1")
                elif end in ("retry", None) and not has_test:
                    why_p.append(f"a proposal is dropped without the accept test on the path {[('' if tr else 'not ') + U(t)[:50] for t, tr in conds]} "
                                 f"(only a proposal that failed uniform < A may be rejected)")
            # a bounded retry loop (`for attempt in range(n)`) that simply runs out leaves the LAST REJECTED proposal in place unless an
            # `else` suite deals with the exhaustion (as the Hamiltonian step does, by keeping the old point)
            def own_breaks(stmts):
                out_ = []
                for s_ in stmts:
                    if isinstance(s_, ast.Break):
                        out_.append(s_)
                    elif isinstance(s_, (ast.For, ast.While)):
                        continue
                    else:
                        for fld_ in ("body", "orelse", "finalbody"):
                            out_ += own_breaks(getattr(s_, fld_, []) or [])
                return out_
            # (when the accepted path leaves by `return`, what follows the loop is the exhaustion path alone - nothing to confuse)
            if isinstance(loop, ast.For) and not loop.orelse and own_breaks(loop.body):
                why_p.append(f"the retry loop `for {U(loop.target)} in {U(loop.iter)[:40]}` has no `else` and is left by `break` on acceptance: when every attempt is "
                             f"rejected the code goes on, after the loop, as if the last proposal had passed the test")
            obs.append(struct_ob("accept-paths", construct, not why_p,
                                 "every path through the retry loop must end in: accepted by the test, accepted because A >= 1, or rejected "
                                 "by the test; " + "; ".join(why_p[:2]), rel, loop.lineno, slots={"paths": len(_loop_paths(loop.body))}))

        # ---- shortcut accepts imply A >= 1
        shortcut = None
        if isinstance(if_stmt.test, ast.BoolOp) and isinstance(if_stmt.test.op, ast.Or):
            others = [v for v in if_stmt.test.values if not uses_draw(v)]
            if len(others) == 1:
                shortcut = ("inline", others[0])
        else:
            for st in ast.walk(fn):
                if isinstance(st, ast.If) and any(x is if_stmt for x in ast.walk(ast.Module(body=st.orelse, type_ignores=[]))) \
                        and any(isinstance(b, ast.Break) for b in st.body):
                    shortcut = ("outer", st.test)
            # the same thing without the else: an earlier `if <shortcut>: accept; break` in the block that holds the test
            for blk in ast.walk(fn):
                for name in ("body", "orelse"):
                    stmts = getattr(blk, name, None)
                    if isinstance(stmts, list) and any(x is if_stmt for x in stmts):
                        for st in stmts[:[id(x) for x in stmts].index(id(if_stmt))]:
                            if isinstance(st, ast.If) and not st.orelse and st.body and isinstance(st.body[-1], ast.Break):
                                shortcut = ("outer", st.test)
        if shortcut is not None:
            t = shortcut[1]
            ok_s, why = False, f"shortcut `{U(t)}`"
            tv_ = None
            if isinstance(t, ast.Name):
                # the shortcut held in a local (`uphill = p_new > p_old`)
                try:
                    tv_ = ex.eval(t, env)
                except Unsupported:
                    tv_ = None
            if isinstance(tv_, CmpV) and tv_.op in ("Gt", "GtE") and isinstance(tv_.left, R) and isinstance(tv_.right, R):
                l, r_ = tv_.left, tv_.right
                if r_.is_const() and r_.const_value() == 1:
                    ok_s = l.eq(A)
                else:
                    ok_s = (l - r_).eq(E)
                why += f": left-right = {l - r_}; log A = {E}"
            elif isinstance(t, ast.Compare) and len(t.ops) == 1 and isinstance(t.ops[0], (ast.Gt, ast.GtE)):
                l = guard(lambda: ex.eval(t.left, env))
                r_ = guard(lambda: ex.eval(t.comparators[0], env))
                if isinstance(l, R) and isinstance(r_, R):
                    if r_.is_const() and r_.const_value() == 1:
                        ok_s = l.eq(A)                     # accept_prob >= 1
                    else:
                        ok_s = (l - r_).eq(E)              # NEW > OLD  <=>  log A > 0
                    why += f": left-right = {l - r_}; log A = {E}"
            obs.append(struct_ob("accept-shortcut", construct, ok_s,
                                 "an unconditional accept must imply A >= 1 for the same A the test uses; " + why,
                                 rel, if_stmt.lineno))

        # ---- new-old-binding for loop-carried OLD
        if cname in ("GibbsChain", "PcaChain"):
            obs.append(_old_binding(c, fn, new_name, if_stmt))

    # ---------------------------------------------------------------- temper at the remaining sites
    for cname, mname in (("MetropolisChain", "__init__"), ("HamiltonianChain", "__init__"), ("HamiltonianChain", "hamiltonian")):
        ci = prog.cls(cname)
        c, fn = prog.method(cname, mname)
        for call in mcmc.posterior_calls(fn):
            # the innermost arithmetic expression containing the call
            holder = _arith_holder(fn, call)
            ex = expander(prog, ci)
            env = {a.arg: R.sym(a.arg) for a in fn.args.args[1:]}
            try:
                v = ex.eval(holder, env)
            except Unsupported as e:
                raise AnalysisError(f"temper site in {qual(c, fn)}: {e}")
            pa = posterior_atoms(v)
            P = R.atom(pa[0])
            coeff = anf.diff(v, pa[0])
            want = R.sym("self.inv_temp")
            if mname == "hamiltonian":
                want = -want
            obs.append(formula_ob("temper", qual(c, fn), coeff, want, c.module.relpath, call.lineno,
                                  what=f"coefficient of posterior(...) in `{U(holder)}` (exactly one temperature factor)"))

    # ---------------------------------------------------------------- the factor itself: inv_temp is 1 / temperature where it is set
    from ..term import Resolver as _Rz, anf_of as _anf_of, abstract as _abstract
    n_def = 0
    for cname in mcmc.SAMPLERS:
        ci = prog.cls(cname)
        init_ = ci.methods.get("__init__")
        if init_ is None:
            continue
        tpar = [a.arg for a in init_.args.args + init_.args.kwonlyargs if a.arg in ("temperature", "temp", "T")]
        for st_ in ast.walk(init_):
            if isinstance(st_, ast.Assign) and len(st_.targets) == 1 and U(st_.targets[0]) == "self.inv_temp":
                n_def += 1
                t_ = _Rz(init_, prog, ci.module, ci).term(st_.value, st_)
                okd = False
                if tpar:
                    try:
                        okd = _anf_of(t_).eq(R.const(1) / R.sym(tpar[0]))
                    except Unsupported:
                        okd = False
                obs.append(struct_ob("temper", qual(ci, init_) + "[definition]", okd,
                                     f"inv_temp must be 1 / {tpar[0] if tpar else 'temperature'} (the chain targets posterior^(1/T)); it is `{U(t_)[:80]}`",
                                     ci.module.relpath, st_.lineno, tier="F"))
    if n_def < 2:
        raise AnalysisError(f"anchor vanished: definitions of self.inv_temp in the sampler constructors ({n_def} found)")

    # ---------------------------------------------------------------- proposals
    obs.extend(_proposals(prog))
    obs.extend(_stretch(prog))
    obs.append(_hmc_fresh(prog))
    # the momentum refresh samples exp(-K): its covariance is the inverse of the kinetic energy's metric, per mass class
    obs.extend(momentum_obligations(prog, "momentum-samples-kinetic"))
    from .common import call_order_obligations
    obs.extend(call_order_obligations(prog, "arguments-in-order", ["inference/mcmc/gibbs.py", "inference/mcmc/pca.py", "inference/mcmc/ensemble.py",
                                                                   "inference/mcmc/parallel.py", "inference/mcmc/base.py"]))

    meta = {
        "explanation": "At each accept test (located by its uniform draw) the def-use expansion of the test's other side is "
                       "taken to an algebraic normal form and log A - (NEW - OLD) must equal the sampler's Jacobian/kinetic term "
                       "(0; K(r0)-K(r) with K inlined; (n-1) log z), NEW must be posterior(x) times exactly one inv_temp, "
                       "shortcut accepts must imply A >= 1, the loop-carried OLD is refreshed from NEW; proposals are "
                       "N(current, sigma) draws (plain / |.| / folded), the PCA move is homogeneous of degree one in a zero-mean draw, "
                       "the stretch move is X_j + z (X_i - X_j) with j != i and z(0)=1/alpha, z(1)=alpha, and HMC draws fresh momentum "
                       "per attempt from the Gaussian whose precision is the kinetic energy's metric (per mass class, in scalar / "
                       "non-commutative normal form) and integrates copies.",
        "assumptions": ["numpy Generator.random/normal/integers sample the named laws",
                        "folds are measure-preserving symmetries of the box (paper argument, DESIGN.md C01)"],
        "info": info,
    }
    return obs, FLOORS, meta


def _arith_holder(fn, call):
    parents = {}
    for n in ast.walk(fn):
        for ch in ast.iter_child_nodes(n):
            parents[id(ch)] = n
    node = call
    while isinstance(parents.get(id(node)), (ast.BinOp, ast.UnaryOp)):
        node = parents[id(node)]
    return node


def _old_binding(c, fn, new_name, if_stmt):
    """The loop-carried OLD variable: initialised from self.probs[-1], refreshed only from NEW after the retry loop."""
    rel = c.module.relpath
    # OLD variable = the name compared with NEW in the shortcut / used in exp(NEW - OLD)
    old_name = None
    for n in ast.walk(fn):
        if isinstance(n, ast.BinOp) and isinstance(n.op, ast.Sub) and isinstance(n.left, ast.Name) and n.left.id == new_name \
                and isinstance(n.right, ast.Name):
            old_name = n.right.id
    if old_name is None:
        return struct_ob("new-old-binding", qual(c, fn), False, "cannot identify the OLD variable of the accept exponent", rel, fn.lineno)
    defs = [st for st in ast.walk(fn) if isinstance(st, ast.Assign) and any(isinstance(t, ast.Name) and t.id == old_name for t in st.targets)]
    defs.sort(key=lambda s: s.lineno)
    problems = []
    if not defs or U(defs[0].value) != "self.probs[-1]":
        problems.append(f"`{old_name}` is not initialised from self.probs[-1]")
    retry = [w for w in ast.walk(fn) if isinstance(w, ast.While) and any(x is if_stmt for x in ast.walk(w))]
    for d in defs[1:]:
        v = mcmc.unwrap(d.value)
        if not (isinstance(v, ast.Name) and v.id == new_name):
            problems.append(f"`{U(d)}` refreshes OLD from something other than NEW")
        if retry and not (d.lineno > retry[0].end_lineno):
            problems.append(f"`{U(d)}` refreshes OLD inside the retry loop")
    if len(defs) < 2:
        problems.append(f"`{old_name}` is never refreshed after a coordinate is accepted")
    else:
        # the refresh is inside the per-coordinate loop that contains the retry loop
        outer = [l for l in ast.walk(fn) if isinstance(l, ast.For) and retry and any(x is retry[0] for x in ast.walk(l))]
        if outer and not any(x is defs[1] for x in ast.walk(outer[0])):
            problems.append("OLD is refreshed outside the per-coordinate loop")
    # the CURRENT POINT the proposals are built from is loop-carried in the same way: where a sweep proposes from a local copy of the
    # state (`cur = self.get_last()`; `prop = cur + ...`), that local must be refreshed from the accepted proposal together with OLD
    cur_defs = [st for st in ast.walk(fn) if isinstance(st, ast.Assign) and len(st.targets) == 1 and isinstance(st.targets[0], ast.Name)
                and U(st.value) == "self.get_last()"]
    if len(cur_defs) == 1 and retry:
        cur = cur_defs[0].targets[0].id
        used_in_retry = any(isinstance(x, ast.Name) and x.id == cur and isinstance(x.ctx, ast.Load) for x in ast.walk(retry[0]))
        if used_in_retry:
            pcs = [n for n in ast.walk(retry[0]) if isinstance(n, ast.Call) and U(n.func) == "self.posterior" and n.args]
            prop_name = U(pcs[0].args[0]) if len(pcs) == 1 else None
            outer = [l for l in ast.walk(fn) if isinstance(l, ast.For) and any(x is retry[0] for x in ast.walk(l))]
            refresh = [st for st in ast.walk(outer[0] if outer else fn) if isinstance(st, ast.Assign) and len(st.targets) == 1
                       and U(st.targets[0]) == cur and st is not cur_defs[0] and st.lineno > retry[0].end_lineno]
            good = [st for st in refresh if isinstance(mcmc.unwrap(st.value), ast.Name) and mcmc.unwrap(st.value).id == prop_name]
            if outer and not good and prop_name != cur:          # (a sweep that updates the point in place proposes from it by construction)
                problems.append(f"the point `{cur}` the proposals start from is never refreshed from the accepted proposal `{prop_name}` inside the "
                                f"sweep: later coordinates propose from a stale point while OLD is the new point's probability")
    return struct_ob("new-old-binding", qual(c, fn), not problems, "; ".join(problems), rel, fn.lineno,
                     slots={"old": old_name, "new": new_name, "defs": [U(d) for d in defs]})


def _proposals(prog):
    out = []
    # the PCA move: proposal = current point + step, with a step whose law does not depend on the current point (a step scaled by
    # |theta| is not symmetric and would need a Hastings correction the accept test does not have)
    pcc, pts = prog.method("PcaChain", "take_step")
    why_p, n_p = [], 0
    for call in mcmc.posterior_calls(pts):
        if not (call.args and isinstance(call.args[0], ast.Name)):
            continue
        pname = call.args[0].id
        for st_ in ast.walk(pts):
            val_ = st_.value if isinstance(st_, ast.Assign) else None
            # the fold into the bounds may be applied in the same statement: self.process_proposal(current + step)
            while isinstance(val_, ast.Call) and U(val_.func) in ("self.process_proposal", "self.bounds.reflect", "self.pass_through") and len(val_.args) == 1:
                val_ = val_.args[0]
            if isinstance(st_, ast.Assign) and len(st_.targets) == 1 and isinstance(st_.targets[0], ast.Name) and st_.targets[0].id == pname \
                    and st_.lineno < call.lineno and isinstance(val_, ast.BinOp) and isinstance(val_.op, ast.Add):
                n_p += 1
                sides = [val_.left, val_.right]
                cur = [x for x in sides if isinstance(x, ast.Name)]
                if len(cur) != 1:
                    continue
                step = sides[1] if sides[0] is cur[0] else sides[0]
                dep = [U(x) for x in ast.walk(step) if (isinstance(x, ast.Name) and x.id == cur[0].id) or
                       (isinstance(x, ast.Attribute) and U(x) in ("self.theta",)) or (isinstance(x, ast.Call) and U(x.func) == "self.get_last")]
                if dep:
                    why_p.append(f"line {st_.lineno}: the step `{U(step)[:80]}` depends on the current point `{dep[0]}`")
    if n_p == 0:
        raise AnalysisError(f"symmetric-proposal: the statement that builds the PCA proposal (current point + step) is not recognised in {qual(pcc, pts)} - not decided")
    out.append(struct_ob("symmetric-proposal", qual(pcc, pts) + "[step-independent-of-position]", not why_p,
                         "the PCA proposal must be current point + a step drawn independently of the current point: " + "; ".join(why_p[:2]),
                         pcc.module.relpath, pts.lineno, tier="F"))
    pc = prog.cls("Parameter")
    rel = pc.module.relpath
    for mname, g in (("standard_proposal", "id"), ("abs_proposal", "abs"), ("boundary_proposal", "fold")):
        fn = pc.methods.get(mname)
        if fn is None:
            raise AnalysisError(f"anchor vanished: Parameter.{mname}")
        draws = [n for n in ast.walk(fn) if isinstance(n, ast.Call) and U(n.func) == "self.rng.normal"]
        problems = []
        if len(draws) != 1:
            problems.append(f"{len(draws)} normal draws")
        else:
            d = draws[0]
            loc, scale = get_kw(d, "loc", 0), get_kw(d, "scale", 1)
            if loc is None or U(loc) != "self.samples[-1]":
                problems.append(f"draw is centred on `{U(loc) if loc else None}`, not on the current state self.samples[-1]")
            if scale is None or U(scale) != "self.sigma":
                problems.append(f"draw has scale `{U(scale) if scale else None}`, not self.sigma")
            rets = [r for r in ast.walk(fn) if isinstance(r, ast.Return)]
            if g == "id":
                if not (len(rets) == 1 and rets[0].value is d):
                    problems.append("must return the draw unchanged")
            elif g == "abs":
                ok = len(rets) == 1 and isinstance(rets[0].value, ast.Call) and U(rets[0].value.func) == "abs" \
                    and rets[0].value.args[0] is d
                if not ok:
                    problems.append("must return abs(draw)")
            else:
                # every returned expression depends on the draw only through (draw - lower); form checked in C04.fold-form
                # (decided on the returned TERMS, temporaries and helpers inlined: how the draw is named is immaterial)
                from ..term import Resolver, pmatch
                rz = Resolver(fn, prog, pc.module, pc)
                dtxt = U(d)

                def leaves(t):
                    if isinstance(t, ast.IfExp):
                        return leaves(t.body) + leaves(t.orelse)
                    return [t]
                los, ws, his = set(), set(), set()
                undecided = []
                for r in rz.returns():
                    for leaf in leaves(rz.term(r.value, r)):
                        up = pmatch(leaf, "_lo + (_x - _lo) % _w")
                        dn = pmatch(leaf, "_hi - (_x - _lo) % _w")
                        b = up or dn
                        if b is not None and b["_x"] == dtxt:
                            los.add(b["_lo"])
                            ws.add(b["_w"])
                            if dn is not None:
                                his.add(b["_hi"])
                            continue
                        inner = [x for x in ast.walk(leaf) if x is not leaf and (pmatch(x, "_lo + (_x - _lo) % _w") or pmatch(x, "_hi - (_x - _lo) % _w"))]
                        if inner:
                            outer = U(leaf)[:40]
                            problems.append(f"the value folded into the interval is mapped once more before it is returned (`{outer}...`, line "
                                            f"{r.lineno}): two reflections about different points do not compose to a symmetric proposal")
                        else:
                            undecided.append(U(leaf)[:120])
                if undecided and not problems:
                    # the fold may be written arithmetically or delegated to a helper: C04.fold-form decides it on the expanded value
                    # of the method (one exact divmod of (draw - lo, hi - lo), parity, both arms) - accepted here when all of it holds
                    from .C04 import _fold_forms
                    ff_ = [o_ for o_ in _fold_forms(prog) if "boundary_proposal" in o_.construct]
                    if ff_ and all(o_.ok for o_ in ff_):
                        los, ws, his, undecided = {"lo"}, {"w"}, {"hi"}, []
                if undecided and not problems:
                    raise AnalysisError(f"proposal-symmetric: returned term `{undecided[0]}` of Parameter.{mname} is not one of the two fold "
                                        f"arms lo + (draw - lo) % w / hi - (draw - lo) % w - not decided")
                if not problems:
                    if len(los) != 1 or len(ws) != 1 or len(his) > 1:
                        problems.append(f"the fold arms disagree on the interval: lower ends {sorted(los)}, widths {sorted(ws)}, upper ends {sorted(his)}")
        out.append(struct_ob("proposal-symmetric", qual(pc, fn), not problems, "; ".join(problems), rel, fn.lineno,
                             slots={"map": g}, tier="F" if g == "fold" else "S"))
    # PCA move: prop - theta0 is homogeneous of degree 1 in one zero-mean draw
    ci = prog.cls("PcaChain")
    c, fn = prog.method("PcaChain", "take_step")
    draws = [n for n in ast.walk(fn) if isinstance(n, ast.Call) and U(n.func) == "self.rng.normal"]
    problems = []
    if len(draws) != 1 or draws[0].args or draws[0].keywords:
        problems.append(f"expected one standard-normal draw rng.normal(); found {[U(d) for d in draws]}")
    else:
        # the proposed point is what is handed to process_proposal (else the statement holding the draw)
        pp = [n for n in ast.walk(fn) if isinstance(n, ast.Call) and U(n.func) == "self.process_proposal" and n.args]
        st = [s for s in ast.walk(fn) if isinstance(s, ast.Assign) and any(x is (pp[0] if pp else draws[0]) for x in ast.walk(s))][0]
        target = pp[0].args[0] if pp else st.value
        ex = expander(prog, ci)
        env = {}
        guard(lambda: ex.run_until(fn.body, env, st))
        v = guard(lambda: ex.eval(target, env))
        # the current point: the local initialised from self.get_last()
        cur_names = [U(s.targets[0]) for s in fn.body if isinstance(s, ast.Assign) and U(s.value) == "self.get_last()"]
        cur = env.get(cur_names[0]) if len(cur_names) == 1 else None
        datoms = [a for a in v.atoms() if a[0] == "sym" and a[1].startswith("rng.normal")]
        if cur is None or len(datoms) != 1:
            problems.append("cannot identify the current point / the draw in the proposal expression")
        else:
            delta = v - cur
            at0 = anf.subst(delta, {datoms[0]: R.const(0)})
            d1 = anf.diff(delta, datoms[0])
            d2 = anf.diff(d1, datoms[0])
            if not at0.is_zero():
                problems.append(f"proposal minus current point has the draw-independent part {at0} (biased move)")
            if d1.is_zero() or not d2.is_zero():
                problems.append(f"proposal is not linear in the draw (d/ddraw = {d1}, d2 = {d2})")
            if any(a == datoms[0] for a in cur.all_atoms()):
                problems.append("current point depends on the draw")
    out.append(struct_ob("proposal-symmetric", qual(c, fn), not problems, "; ".join(problems), c.module.relpath, fn.lineno))
    return out


def _stretch(prog):
    out = []
    ci = prog.cls("EnsembleSampler")
    c, fn = prog.method("EnsembleSampler", "__proposal")
    rel = c.module.relpath
    i = fn.args.args[1].arg
    ex = expander(prog, ci)
    ex.opaque_self_attrs = set(OPAQUE) - set()
    env = {i: R.sym(i)}
    ret = last_return(fn)
    guard(lambda: ex.run_until(fn.body, env, ret))
    # Y before the reflection hook
    pp = [n for n in ast.walk(fn) if isinstance(n, ast.Call) and U(n.func) == "self.process_proposal"]
    if len(pp) != 1:
        raise AnalysisError("anchor vanished: process_proposal call in EnsembleSampler.__proposal")
    jdef = mcmc.last_def(fn, "j", 10 ** 9)
    zname = U(ret.value.elts[1]) if isinstance(ret.value, ast.Tuple) and len(ret.value.elts) == 2 else None
    if zname is None or zname not in env:
        raise AnalysisError("anchor vanished: (proposal, z) return of EnsembleSampler.__proposal")
    z = env[zname]
    # the proposal as it is computed WHERE it is computed (a later re-binding of a name it reads does not change it), and the
    # stretch factor it was built with
    from ..term import Resolver as _Rz2
    pp_stmt = _Rz2(fn).stmt_of(pp[0])
    ex_b = expander(prog, ci)
    ex_b.opaque_self_attrs = set(OPAQUE) - set()
    env_b = {i: R.sym(i)}
    guard(lambda: ex_b.run_until(fn.body, env_b, pp_stmt))
    Y = guard(lambda: ex_b.eval(pp[0].args[0], env_b))
    z_used = env_b.get(zname)
    if not (isinstance(z_used, R) and isinstance(z, R) and z_used.eq(z)):
        out.append(struct_ob("stretch", qual(c, fn) + "[z-returned]", False,
                             f"the stretch factor handed to the accept test (`{zname}` = {z}) is not the one the proposal was built with ({z_used}): "
                             f"the factor z^(n-1) then belongs to another move", rel, ret.lineno, tier="F"))
        z = z_used if isinstance(z_used, R) else z
    jv = env.get("j")
    Xi = R.sym(f"self.walker_positions[{i}]")
    jtxt = None
    # the partner index atom as it appears in Y
    cand = [a for a in Y.all_atoms() if a[0] == "sym" and a[1].startswith("self.walker_positions[") and a != Xi.single_term()[1][0][0]]
    ok = False
    msg = ""
    if len(cand) == 1:
        Xj = R.atom(cand[0])
        want = Xj + z * (Xi - Xj)
        ob = formula_ob("stretch", qual(c, fn), Y, want, rel, pp[0].lineno,
                        what="stretch move Y = X_j + z (X_i - X_j) (i = walker being updated, j = partner)")
        out.append(ob)
    else:
        out.append(struct_ob("stretch", qual(c, fn), False, f"cannot identify the partner walker in {Y}", rel, fn.lineno))
    # j = (integers(low=1, high=n) + i) % n
    okj, why = False, ""
    if jdef is not None:
        v = jdef.value
        if isinstance(v, ast.BinOp) and isinstance(v.op, ast.Mod) and U(v.right) == "self.n_walkers" \
                and isinstance(v.left, ast.BinOp) and isinstance(v.left.op, ast.Add):
            parts = [v.left.left, v.left.right]
            draw = [p for p in parts if isinstance(p, ast.Call) and U(p.func) == "self.rng.integers"]
            other = [p for p in parts if not (isinstance(p, ast.Call))]
            if len(draw) == 1 and len(other) == 1 and U(other[0]) == i:
                lo, hi = get_kw(draw[0], "low", 0), get_kw(draw[0], "high", 1)
                okj = lo is not None and hi is not None and U(lo) == "1" and U(hi) == "self.n_walkers"
        why = U(jdef)
    out.append(struct_ob("stretch", qual(c, fn) + "[partner]", okj,
                         f"partner must be (integers(1, n_walkers) + i) % n_walkers, which excludes i itself: `{why}`",
                         rel, jdef.lineno if jdef is not None else fn.lineno))
    # z(0) = 1/alpha, z(1) = alpha with the constructor constants inlined
    ex2 = Expander(prog, ci.module, ci)
    ex2.opaque_self_attrs = {"rng", "walker_positions", "n_walkers", "process_proposal"}
    env2 = {i: R.sym(i)}
    zdef = mcmc.last_def(fn, zname, 10 ** 9)
    zz = guard(lambda: ex2.eval(zdef.value, env2))
    draws = [a for a in zz.all_atoms() if a[0] == "sym" and a[1].startswith("rng.random")]
    okz, why = False, f"z = {zz}"
    if len(draws) == 1:
        alpha = R.sym("alpha")
        z0 = anf.subst(zz, {draws[0]: R.const(0)})
        z1 = anf.subst(zz, {draws[0]: R.const(1)})
        okz = z0.eq(R.const(1).div(alpha)) and z1.eq(alpha)
        why = f"z(U=0) = {z0}, z(U=1) = {z1}"
        # z = c (a + b U)^2 : sqrt(z) linear in U  <=>  d2(z)/dU2 constant and discriminant form; checked through end points
        d1 = anf.diff(zz, draws[0])
        d2 = anf.diff(d1, draws[0])
        d3 = anf.diff(d2, draws[0])
        okz = okz and d3.is_zero()
        # ... and a perfect square: z = A U^2 + B U + C with B^2 = 4 A C  (A = z''/2, B = z'(0), C = z(0)); any other quadratic through
        # the same end points has another density than 1/sqrt(z)
        if okz:
            A_, B_, C_ = d2 / 2, anf.subst(d1, {draws[0]: R.const(0)}), z0
            sq = (B_ * B_).eq(4 * A_ * C_)
            if not sq:
                okz = False
                why += f"; z is not the square of an affine function of the draw (B^2 - 4AC = {B_ * B_ - 4 * A_ * C_})"
    out.append(struct_ob("stretch", qual(c, fn) + "[z-law]", okz,
                         "z must be quadratic in one uniform draw with z(0) = 1/alpha and z(1) = alpha (density ~ 1/sqrt(z)): " + why,
                         rel, zdef.lineno if zdef is not None else fn.lineno))
    return out


def _hmc_fresh(prog):
    c, fn = prog.method("HamiltonianChain", "take_step")
    rel = c.module.relpath
    loops = [l for l in fn.body if isinstance(l, ast.For) and "max_attempts" in U(l.iter)]
    problems = []
    if len(loops) != 1:
        problems.append("attempt loop not found")
    else:
        lp = loops[0]
        src = {}
        for st in lp.body:
            if isinstance(st, ast.Assign):
                src[U(st.targets[0])] = st.value
        mom = [k for k, v in src.items() if isinstance(v, ast.Call) and U(v.func) == "self.mass.sample_momentum"]
        if len(mom) != 1:
            problems.append("momentum is not drawn inside the attempt loop")
        lf = [(st, st.value) for st in lp.body if isinstance(st, ast.Assign) and isinstance(st.value, ast.Call) and U(st.value.func) == "self.run_leapfrog"]
        if len(lf) != 1:
            problems.append("no single run_leapfrog call in the attempt loop")
        elif mom:
            # as resolved terms: wherever the current point was read into a local (inside the loop or before it - nothing changes
            # self.theta between attempts), the trajectory starts from a copy of self.theta[-1] and of the momentum drawn in this attempt
            from ..term import Resolver
            rz = Resolver(fn, prog, c.module, c)
            st_, call_ = lf[0]
            a0 = U(rz.term(call_.args[0], st_)) if call_.args else None
            a1 = U(rz.term(call_.args[1], st_, keep=(mom[0],))) if len(call_.args) > 1 else None
            if a0 not in ("self.theta[-1].copy()", "copy(self.theta[-1])", "array(self.theta[-1])"):
                problems.append(f"start of the trajectory is not a copy of self.theta[-1]: `{a0}`")
            if a1 not in (f"{mom[0]}.copy()", f"copy({mom[0]})", f"array({mom[0]})"):
                problems.append(f"leapfrog must receive a copy of the fresh momentum; receives `{a1}`")
    return struct_ob("hmc-fresh-momentum", qual(c, fn), not problems, "; ".join(problems), rel, fn.lineno)
