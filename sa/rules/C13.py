"""C13 - sample_hdi returns the shortest interval with the requested fraction (tier S + F).

Decides: the caller's array is never mutated; the window offset used to form the widths
is the offset used to fetch the upper end; the window holds L+1 > fraction*n points; every
reduction is column-wise; end points are selected sample values (affine covariance).
Does not decide: arg-min correctness (numpy), tie behaviour.
"""
from __future__ import annotations
import ast
import copy
from ..model import fqual, get_kw
from ..own import Ownership
from ..symx import Expander
from ..anf import R
from .. import anf
from .common import dtype_hazard_obligations, struct_ob, formula_ob, guard, last_return, U
from ..report import AnalysisError
from ..term import Resolver, pmatch, abstract, anf_of

REL = "inference/pdf/hdi.py"
FLOORS = {"input-layout": 2, "float-arithmetic": 1, "ownership": 1, "window-offset": 3, "axis-discipline": 3, "endpoints-are-samples": 1, "result-keyed-on-values": 1}


NEUTRAL_CALLS = {"array", "asarray", "asanyarray", "copy", "ascontiguousarray", "asfortranarray", "atleast_1d", "deepcopy"}
NEUTRAL_KW = {"dtype", "copy", "order"}


def _layout_ops(v, pname):
    """Peel copying / converting wrappers off `v` down to the parameter; returns the list of operations that are not pure
    conversions (each can change which axis holds the draws), or None if the parameter is not reached."""
    ops = []
    while True:
        if isinstance(v, ast.IfExp):
            # a two-way conversion: both ways must reduce; their layout operations are pooled (tagged by the way taken)
            a, b = _layout_ops(v.body, pname), _layout_ops(v.orelse, pname)
            if a is None or b is None:
                return None
            if a == b:
                return ops + a
            return ops + ([f"if {U(v.test)}: {a}"] if a else []) + ([f"if not {U(v.test)}: {b}"] if b else [])
        if isinstance(v, ast.Name):
            return ops if v.id == pname else None
        if isinstance(v, ast.Call):
            f = v.func
            if isinstance(f, ast.Attribute) and f.attr in ("copy", "astype", "view") and len(v.args) <= 1 and f.attr != "view":
                v = f.value
                continue
            nm = f.attr if isinstance(f, ast.Attribute) else f.id if isinstance(f, ast.Name) else None
            recv_call = isinstance(f, ast.Attribute) and not (isinstance(f.value, ast.Name) and f.value.id in ("np", "numpy", "copy"))
            if nm in NEUTRAL_CALLS and not recv_call and v.args:
                extra = [k.arg for k in v.keywords if k.arg not in NEUTRAL_KW]
                if extra:
                    ops.append(f"{nm}(.., {', '.join(str(e) + '=' + U(k.value) for e, k in zip(extra, [k for k in v.keywords if k.arg in extra]))})")
                v = v.args[0]
                continue
            ops.append(f"{nm}(..)" if not recv_call else f".{nm}(..)")
            v = f.value if recv_call else (v.args[0] if v.args else None)
            if v is None:
                return None
            continue
        if isinstance(v, ast.Attribute):
            ops.append("." + v.attr)
            v = v.value
            continue
        if isinstance(v, ast.Subscript):
            ops.append(f"[{U(v.slice)}]")
            v = v.value
            continue
        return None


def _input_layout(fn, construct):
    """The input may arrive as an ndarray or as a (nested) sequence; the arms of the type dispatch must hand the same array on -
    rows are draws, columns are variables, whatever the container.  The arms may differ in how they copy / convert only."""
    pname = fn.args.args[0].arg
    arms = []

    def is_dispatch(t):
        return any(isinstance(n, ast.Call) and U(n.func) == "isinstance" and n.args and U(n.args[0]) == pname for n in ast.walk(t))

    def collect(st):
        if isinstance(st, ast.If) and is_dispatch(st.test):
            arms.append((U(st.test), st.body))
            if len(st.orelse) == 1 and isinstance(st.orelse[0], ast.If):
                collect(st.orelse[0])
            elif st.orelse:
                arms.append(("else", st.orelse))
    for st in fn.body:
        if isinstance(st, ast.If) and is_dispatch(st.test) and not arms:
            collect(st)
    conv = []
    for test, body in arms:
        for s_ in body:
            if isinstance(s_, ast.Assign) and len(s_.targets) == 1 and isinstance(s_.targets[0], ast.Name) \
                    and any(isinstance(n, ast.Name) and n.id == pname for n in ast.walk(s_.value)):
                conv.append((test, s_.targets[0].id, s_.value, s_.lineno))
    if len(conv) < 2:
        # no dispatch statement on the container type: one conversion (possibly a two-way expression) serves every input; the
        # two ways of a conditional expression must not differ in layout operations
        single = [s_ for s_ in fn.body if isinstance(s_, ast.Assign) and len(s_.targets) == 1 and isinstance(s_.targets[0], ast.Name)
                  and _layout_ops(s_.value, pname) is not None]
        if len(single) == 1:
            ops = _layout_ops(single[0].value, pname)
            split = [o for o in ops if o.startswith("if ")]
            return struct_ob("input-layout", construct, not split,
                             f"the two ways of `{U(single[0].value)[:160]}` lay the sample out differently: {split} - a (draws x variables) "
                             f"sample given as a nested sequence is treated differently from the same sample as an array",
                             REL, single[0].lineno, slots={"arms": [{"test": "always", "conversion": U(single[0].value), "layout_ops": ops}]})
    if len(conv) < 2 or len({c[1] for c in conv}) != 1:
        raise AnalysisError(f"anchor vanished: input-type dispatch of sample_hdi ({len(conv)} conversions of `{pname}`)")
    layouts = []
    for test, name, v, line in conv:
        ops = _layout_ops(v, pname)
        if ops is None:
            raise AnalysisError(f"input-layout: conversion `{U(v)}` (line {line}) does not reduce to `{pname}`")
        layouts.append((test, tuple(ops), U(v), line))
    distinct = {l[1] for l in layouts}
    msg = ""
    if len(distinct) > 1:
        msg = ("the arms of the input-type dispatch lay the sample out differently: " +
               "; ".join(f"under `{t}`: `{src}` applies {list(o) or 'no layout operation'}" for t, o, src, _ in layouts) +
               " - a (draws x variables) sample given as a nested sequence is treated differently from the same sample as an array")
    return struct_ob("input-layout", construct, len(distinct) == 1, msg, REL, layouts[0][3],
                     slots={"arms": [{"test": t, "conversion": src, "layout_ops": list(o)} for t, o, src, _ in layouts]})


class _RowCount(ast.NodeTransformer):
    """`X.shape[0]` / `len(X)` of any array that has the rows of the sample (the argument itself or a local every definition of which
    is a row-preserving function of it: array / asarray / sort / copy / reshape to (size, 1)) is rewritten to the row count of the
    sorted copy `sname`: sorting, copying and adding a column axis do not change the number of rows."""
    KEEP_F = {"array", "asarray", "sort", "sorted", "copy", "ascontiguousarray", "asanyarray", "atleast_1d"}
    KEEP_M = {"copy", "reshape", "astype"}

    def __init__(self, fn, sname):
        self.fn, self.sname = fn, sname
        self.param = fn.args.args[0].arg
        self.defs = {}
        for st in ast.walk(fn):
            if isinstance(st, ast.Assign) and len(st.targets) == 1 and isinstance(st.targets[0], ast.Name):
                self.defs.setdefault(st.targets[0].id, []).append(st.value)

    def rows_of_sample(self, e, seen=()):
        if isinstance(e, ast.Name):
            if e.id == self.param or e.id == self.sname:
                return True
            if e.id in seen:
                return True           # `s = f(s)`: the earlier binding of the same name, itself among the definitions being checked
            if e.id not in self.defs:
                return False
            return all(self.rows_of_sample(v, seen + (e.id,)) for v in self.defs[e.id])
        if isinstance(e, ast.Call):
            f = e.func
            if isinstance(f, ast.Name) and f.id in self.KEEP_F and e.args:
                return self.rows_of_sample(e.args[0], seen)
            if isinstance(f, ast.Attribute) and f.attr in self.KEEP_M:
                if f.attr == "reshape":
                    a0 = e.args[0] if e.args else None
                    first = a0.elts[0] if isinstance(a0, (ast.List, ast.Tuple)) and a0.elts else a0
                    if not (first is not None and (U(first) == "-1" or (isinstance(first, ast.Attribute) and first.attr == "size"))):
                        return False
                return self.rows_of_sample(f.value, seen)
        if isinstance(e, ast.Subscript):
            # `X[:, None]` / `X[:]`: every row kept (a column axis added)
            idx = e.slice.elts if isinstance(e.slice, ast.Tuple) else [e.slice]
            full = isinstance(idx[0], ast.Slice) and idx[0].lower is None and idx[0].upper is None and idx[0].step is None
            if full and all(U(x) in ("None", "newaxis") for x in idx[1:]):
                return self.rows_of_sample(e.value, seen)
        if isinstance(e, ast.IfExp):
            return self.rows_of_sample(e.body, seen) and self.rows_of_sample(e.orelse, seen)
        return False

    def visit_Subscript(self, n):
        self.generic_visit(n)
        if isinstance(n.value, ast.Attribute) and n.value.attr == "shape" and U(n.slice) == "0" and self.rows_of_sample(n.value.value):
            return ast.parse(f"{self.sname}.shape[0]", mode="eval").body
        return n

    def visit_Call(self, n):
        self.generic_visit(n)
        if isinstance(n.func, ast.Name) and n.func.id == "len" and len(n.args) == 1 and self.rows_of_sample(n.args[0]):
            return ast.parse(f"{self.sname}.shape[0]", mode="eval").body
        return n


def run(prog, tier):
    # the interval is a function of the VALUES in the sample: nothing may be remembered under the identity of the caller's array
    from .common import identity_memo_obligations
    memo = identity_memo_obligations(prog, "result-keyed-on-values", [REL])
    try:
        obs, floors, meta = _run_main(prog, tier)
    except AnalysisError:
        if any(not o.ok for o in memo):       # a definite violation beats an analysis that cannot proceed
            return memo, {}, {"explanation": "a result is remembered under the identity of a mutable argument; remaining rules not evaluated"}
        raise
    return memo + obs, floors, meta


def _run_main(prog, tier):
    anf.reset()
    obs = []
    mi = prog.module(REL)
    fn = prog.function(REL, "sample_hdi")
    construct = fqual(mi, fn)

    # ---------------------------------------------------------------- ownership
    own = Ownership(prog)
    summ = own.summary(mi, None, fn)
    hits = summ.mutates_params.get(0, [])
    obs.append(struct_ob("ownership", construct, not hits,
                         f"the caller's `{fn.args.args[0].arg}` array is mutated in place: {hits[:2]}", REL,
                         hits[0][0] if hits else fn.lineno, slots={"returns_alias_of_params": sorted(summ.returns_params)}))
    # positive example: removing the copy must be seen by the engine
    ex_fn = ast.parse("def f(sample):\n    s = sample\n    s.sort(axis=0)\n    return s\n").body[0]

    class _M:
        relpath, imports, functions = "<example>", {}, {}
    if not Ownership(prog).summary(_M, None, ex_fn).mutates_params.get(0):
        raise AnalysisError("ownership engine lost its positive example")

    # ---------------------------------------------------------------- window-offset (on resolved terms: temporaries are irrelevant)
    rz = Resolver(fn, prog, mi, None)
    frac = fn.args.args[1].arg
    stores = [s_ for s_ in ast.walk(fn) if isinstance(s_, ast.Assign) and isinstance(s_.targets[0], ast.Subscript)
              and isinstance(s_.targets[0].value, ast.Name)]
    out_names = {U(r_.value.func.value) if isinstance(r_.value, ast.Call) and isinstance(r_.value.func, ast.Attribute) else U(r_.value)
                 for r_ in rz.returns()}
    stores = [s_ for s_ in stores if s_.targets[0].value.id in out_names]
    rows = {}
    for s_ in stores:
        sl = s_.targets[0].slice
        row = U(sl.elts[0]) if isinstance(sl, ast.Tuple) else U(sl)
        rows.setdefault(row, []).append(s_)
    # a gather "row I[j] of column j" has several spellings; each is reduced to (array, I) with I the per-column row index as a 1-D
    # expression (index expansions `expand_dims(A, 0)`, `A[None, :]` are looked through; `argmin(X, axis=k)` is read as X.argmin(axis=k))
    class _NormIdx(ast.NodeTransformer):
        def visit_Call(self, n):
            self.generic_visit(n)
            if U(n.func) == "expand_dims" and len(n.args) + len(n.keywords) == 2:
                ax = n.args[1] if len(n.args) == 2 else n.keywords[0].value
                if U(ax) == "0":
                    return n.args[0]
            if isinstance(n.func, ast.Name) and n.func.id in ("argmin",) and n.args:
                return ast.Call(func=ast.Attribute(value=n.args[0], attr=n.func.id, ctx=ast.Load()), args=n.args[1:], keywords=n.keywords)
            return n

        def visit_Subscript(self, n):
            self.generic_visit(n)
            if U(n.slice) in ("(None, slice(None, None, None))", "None, :", "(None, :)", "None") or \
                    (isinstance(n.slice, ast.Tuple) and len(n.slice.elts) == 2 and U(n.slice.elts[0]) == "None" and U(n.slice.elts[1]) == ":") or \
                    (isinstance(n.slice, ast.Constant) and n.slice.value is None):
                return n.value
            return n

    TAILS = ["{g}.ravel()", "{g}.flatten()", "{g}.reshape(-1)", "{g}.squeeze()", "{g}.squeeze(axis=0)", "{g}.squeeze(0)", "{g}[0]", "{g}[0, :]", "{g}"]
    GATHERS = ["take_along_axis(_s, _I, 0)", "take_along_axis(_s, _I, axis=0)", "_s[_I, arange(_s.shape[1])]", "_s[_I, arange(len(_s[0]))]"]
    WIDTHS = ["(_s[_L:, :] - _s[:_n - _L, :]).argmin(axis=0)", "(_s[_L:] - _s[:_n - _L]).argmin(axis=0)"]

    def gather(t, fixed=None):
        t = _NormIdx().visit(copy.deepcopy(t))
        for tl in TAILS:
            for gform in GATHERS:
                b_ = pmatch(t, tl.format(g=gform), fixed or {})
                if b_ is not None:
                    return b_
        return None
    found = None
    why = []
    lows = [(s_, rz.term(s_.value, s_)) for s_ in rows.get("0", [])]
    ups = [(s_, rz.term(s_.value, s_)) for s_ in rows.get("1", [])]
    for s0, t0 in lows:
        b0 = gather(t0)
        if b0 is None:
            continue
        itree = ast.parse(b0["_I"], mode="eval").body
        for wp in WIDTHS:
            bw = pmatch(itree, wp, {"_s": b0["_s"]})
            if bw is not None:
                b0 = dict(b0)
                b0["_i"] = b0["_I"]
                found = (s0, b0, bw)
                break
        if found:
            break
    n_sym = R.sym("n")
    if found is None:
        why.append("no lower end of the form take_along_axis(s, argmin(s[L:] - s[:n - L], axis=0), axis=0) found; lower-end terms: "
                   + "; ".join(U(t)[:200] for _, t in lows))
        Lterm = None
    else:
        s0, b0, bw = found
        sname, Ltxt, ntxt, itxt = bw["_s"], bw["_L"], bw["_n"], b0["_i"]
        Lterm = ast.parse(Ltxt, mode="eval").body
        # the upper end is fetched with the same offset, from the same array
        up_ok = False
        for s1, t1 in ups:
            b1 = gather(t1, {"_s": sname})
            if b1 is not None and pmatch(ast.parse(b1["_I"], mode="eval").body, "_i + _L", {"_i": itxt, "_L": Ltxt}) is not None:
                up_ok = True
        if not up_ok:
            why.append(f"the upper end is not take_along_axis({sname}, i + L, axis=0) with the same i and the same offset L = `{Ltxt}`; "
                       f"upper-end terms: " + "; ".join(U(t)[:200] for _, t in ups))
        # n is the number of rows of the sorted copy
        if U(_RowCount(fn, sname).visit(ast.parse(ntxt, mode="eval").body)) not in (f"{sname}.shape[0]", f"len({sname})"):
            why.append(f"the window count uses `{ntxt}`, not the number of rows of `{sname}`")
    obs.append(struct_ob("window-offset", construct + "[ends]", not why,
                         "lower end must be s[i] and upper end s[i + L] with i = argmin over windows s[L:] - s[:n - L], per column: "
                         + "; ".join(why), REL, fn.lineno))
    if Lterm is not None:
        Lterm = _RowCount(fn, found[2]['_s']).visit(Lterm)
        other = [U(n) for n in ast.walk(Lterm) if (isinstance(n, ast.Attribute) and n.attr in ("shape", "size") and U(n.value) != found[2]['_s'])
                 or (isinstance(n, ast.Call) and U(n.func) == "len" and n.args and U(n.args[0]) != found[2]['_s'])]
        if other:
            raise AnalysisError(f"window-offset: the offset `{U(Lterm)[:120]}` counts the rows of `{other[0]}`, which cannot be identified with "
                                f"the rows of the sorted sample `{found[2]['_s']}`")
        La, _ = abstract(Lterm, [(f"{found[2]['_s']}.shape[0]", "n"), (f"len({found[2]['_s']})", "n")])
        Lv = guard(lambda: anf_of(La))
        obs.append(formula_ob("window-offset", construct + "[L]", Lv, anf.fn_("int", R.sym(frac) * n_sym), REL, fn.lineno,
                              what="window offset L = int(fraction * n_samples)"))
        # both slices of the width computation have n - L rows: guaranteed by the matched form s[L:] - s[:n - L]
        obs.append(struct_ob("window-offset", construct + "[widths]", True, "", REL, fn.lineno,
                             slots={"widths": f"{found[2]['_s']}[{found[2]['_L']}:] - {found[2]['_s']}[:{found[2]['_n']} - {found[2]['_L']}]"}))
    sname = found[2]["_s"] if found else "s"
    # when the working copy is cleanly re-bound on the way the resolved term of the gathered array is `sorted(<copy>, axis=0)` itself
    # (the term layer's reading of `<copy>.sort(axis=0)`): the statements below are then looked up under the copy's own name
    bs_ = pmatch(ast.parse(sname, mode="eval").body, "sorted(_x, axis=0)")
    if bs_ is not None:
        sname = bs_["_x"]
    # the windows are used whenever there is one: the guard around them is n > L (every fraction < 1 of two or more draws), not a
    # stricter test that sends small samples to the full range
    if found:
        am = [n_ for n_ in ast.walk(fn) if isinstance(n_, ast.Call) and isinstance(n_.func, ast.Attribute) and n_.func.attr == "argmin"]
        guards_ = [(i_, False) for i_ in ast.walk(fn) if isinstance(i_, ast.If) and am and any(x is am[0] for b_ in i_.body for x in ast.walk(b_))]
        # the same guard written as an early exit: `if <test>: return ..` in front of the windows (reached iff not <test>)
        if am:
            for i_ in fn.body:
                if isinstance(i_, ast.If) and i_.lineno < am[0].lineno and not i_.orelse and i_.body and isinstance(i_.body[-1], ast.Return) \
                        and not any(x is am[0] for x in ast.walk(i_)) and any(isinstance(x, ast.Name) and x.id not in (fn.args.args[0].arg,) for x in ast.walk(i_.test)):
                    tt_ = rz.term(i_.test, i_)
                    if any((isinstance(x, ast.Attribute) and x.attr in ("shape", "size")) or (isinstance(x, ast.Call) and U(x.func) == "len") for x in ast.walk(tt_)):
                        guards_.append((i_, True))
        for g_, negate_ in guards_:
            t_ = rz.term(g_.test, g_)
            if negate_ and isinstance(t_, ast.Compare) and len(t_.ops) == 1:
                inv_ = {ast.Lt: ast.GtE, ast.LtE: ast.Gt, ast.Gt: ast.LtE, ast.GtE: ast.Lt}.get(type(t_.ops[0]))
                if inv_ is not None:
                    t_ = ast.Compare(left=t_.left, ops=[inv_()], comparators=t_.comparators)
            okg, shown = False, U(t_)[:100]
            if isinstance(t_, ast.Compare) and len(t_.ops) == 1:
                try:
                    ABS_ = [(f"{found[2]['_s']}.shape[0]", "n"), (f"len({found[2]['_s']})", "n")]
                    rc_ = _RowCount(fn, found[2]['_s'])
                    l_ = anf_of(abstract(rc_.visit(t_.left), ABS_)[0])
                    r_ = anf_of(abstract(rc_.visit(t_.comparators[0]), ABS_)[0])
                    Lv_ = anf_of(abstract(rc_.visit(ast.parse(found[2]['_L'], mode="eval").body), ABS_)[0])
                    want = R.sym("n") - Lv_
                    op_ = type(t_.ops[0]).__name__
                    d_ = (l_ - r_) if op_ in ("Gt", "GtE") else (r_ - l_) if op_ in ("Lt", "LtE") else None
                    if d_ is not None:
                        okg = d_.eq(want) if op_ in ("Gt", "Lt") else d_.eq(want - 1)
                except Exception:
                    okg = False
            obs.append(struct_ob("window-offset", construct + "[guard]", okg,
                                 f"the shortest window is searched whenever n > L; the guard is `{shown}`, which excludes samples for which "
                                 f"windows exist (they get the full range instead of the shortest interval)", REL, g_.lineno, tier="F"))

    # ---------------------------------------------------------------- axis discipline
    checks = []
    for c in ast.walk(fn):
        if isinstance(c, ast.Call):
            f = U(c.func)
            if f == f"{sname}.sort":
                ax = get_kw(c, "axis", 0)
                checks.append(("sort", c, ax is not None and U(ax) == "0"))
            elif f == "sort" and c.args and U(c.args[0]) == sname:
                # the function form, re-bound to the same name: `s = sort(s, axis=0)`
                ax = get_kw(c, "axis", 1)
                checks.append(("sort", c, ax is not None and U(ax) == "0"))
            elif isinstance(c.func, ast.Attribute) and c.func.attr == "argmin":
                ax = get_kw(c, "axis", 0)
                checks.append(("argmin", c, ax is not None and U(ax) == "0"))
            elif f == "argmin" and c.args:
                ax = get_kw(c, "axis", 1)
                checks.append(("argmin", c, ax is not None and U(ax) == "0"))
            elif f == "take_along_axis":
                ax = get_kw(c, "axis", 2)
                checks.append(("take_along_axis", c, ax is not None and U(ax) == "0"))
    for name, c, ok in checks:
        obs.append(struct_ob("axis-discipline", construct + f"[{name}@{c.lineno}]", ok,
                             f"`{U(c)}` must act along axis 0 (the sample axis) so that columns are independent",
                             REL, c.lineno))
    # the sort is unconditional (a top-level statement of the function)
    sort_stmts = [st for st in fn.body if isinstance(st, ast.Expr) and isinstance(st.value, ast.Call) and U(st.value.func) == f"{sname}.sort"]
    sort_stmts += [st for st in fn.body if isinstance(st, ast.Assign) and len(st.targets) == 1 and U(st.targets[0]) == sname
                   and isinstance(st.value, ast.Call) and U(st.value.func) == "sort" and st.value.args and U(st.value.args[0]) == sname]
    n_sorts = len([1 for n_, c, ok in checks if n_ == "sort"])
    obs.append(struct_ob("axis-discipline", construct + "[sort-unconditional]", len(sort_stmts) == 1 and n_sorts == 1,
                         "the copy must be sorted unconditionally before the windows are formed (a sortedness test on the raw values "
                         "is not reliable for every dtype, e.g. unsigned integers wrap in differences)", REL, fn.lineno))
    # the sort precedes the window computation
    sort_line = min([c.lineno for n_, c, ok in checks if n_ == "sort"] or [10 ** 9])
    first_take = min([c.lineno for n_, c, ok in checks if n_ in ("take_along_axis", "argmin")] or [0])
    if sort_line > first_take:
        obs.append(struct_ob("axis-discipline", construct + "[sort-order]", False,
                             "the sample is sorted after the window widths are formed", REL, sort_line))

    # ---------------------------------------------------------------- end points are selections of sample values
    ok = all(not any(isinstance(n_, ast.BinOp) for n_ in ast.walk(ast.Module(body=[s], type_ignores=[]).body[0].value)
                     if not _inside_index(s.value, n_)) for s in stores)
    # ... of the values the caller gave: no conversion on the way to the working copy may change them (a narrower float type rounds every
    # value; an integer type truncates), and nothing rounds / rescales the requested fraction
    lossy = []
    WIDE = ("float", "float64", "'float64'", '"float64"', "double", "'double'", "np.float64", "numpy.float64", "'f8'", '"f8"', "longdouble", "float128")
    for n_ in ast.walk(fn):
        if isinstance(n_, ast.Call) and isinstance(n_.func, ast.Attribute) and n_.func.attr == "astype" and n_.args:
            if U(n_.args[0]) not in WIDE:
                lossy.append((n_.lineno, U(n_)[:80]))
        if isinstance(n_, ast.Call):
            dt = get_kw(n_, "dtype")
            if dt is not None and U(n_.func) in ("array", "asarray", "zeros_like", "empty_like") and U(dt) not in WIDE and n_.args \
                    and any(isinstance(x, ast.Name) and x.id == fn.args.args[0].arg for x in ast.walk(n_.args[0])):
                lossy.append((n_.lineno, U(n_)[:80]))
    # ... nor may the array the end points are written into be of a narrower type than the sample
    for n_ in ast.walk(fn):
        if isinstance(n_, ast.Assign) and len(n_.targets) == 1 and isinstance(n_.targets[0], ast.Name) and n_.targets[0].id in out_names \
                and isinstance(n_.value, ast.Call):
            dt = get_kw(n_.value, "dtype")
            if dt is not None and U(dt) not in WIDE:
                lossy.append((n_.lineno, U(n_.value)[:80]))
    obs.append(struct_ob("endpoints-are-samples", construct, ok and len(stores) == 4 and not lossy,
                         "both end points must be sample values selected by index (no arithmetic on the values), which is what "
                         "makes the result covariant under positive affine maps"
                         + ("; " + "; ".join(f"line {l}: `{t}` converts the sample to a type that does not hold its values exactly" for l, t in lossy[:2])
                            if lossy else ""), REL, lossy[0][0] if lossy else fn.lineno,
                         slots={"stores": [U(s) for s in stores]}))

    # every draw takes part: each (re)definition of the working copy keeps all rows (conversions, copies, the sort, a column axis);
    # and what is returned is what was stored: nothing rounds / rescales the end points on the way out
    rc_all = _RowCount(fn, sname)
    dropped, undecided = [], []
    for st_ in ast.walk(fn):
        if isinstance(st_, ast.Assign) and len(st_.targets) == 1 and isinstance(st_.targets[0], ast.Name) and st_.targets[0].id == sname:
            v_ = st_.value
            if rc_all.rows_of_sample(v_, (sname,)):
                continue
            if isinstance(v_, ast.Subscript) and isinstance(v_.value, ast.Name) and v_.value.id == sname:
                dropped.append((st_.lineno, U(st_)[:80]))
            elif isinstance(v_, ast.Call) and U(v_.func).split(".")[-1] in ("unique", "choice", "compress", "take", "delete", "resample", "percentile"):
                dropped.append((st_.lineno, U(st_)[:80]))
            else:
                undecided.append((st_.lineno, U(st_)[:80]))
    # ... nor written into: apart from the sort (and the resize that adds the column axis) nothing stores into the working copy or
    # updates it through `out=` - a rounded, winsorised or clipped copy is another sample
    for st_ in ast.walk(fn):
        tg_ = st_.targets[0] if isinstance(st_, ast.Assign) and len(st_.targets) == 1 else st_.target if isinstance(st_, ast.AugAssign) else None
        b_ = tg_
        while isinstance(b_, ast.Subscript):
            b_ = b_.value
        if tg_ is not None and isinstance(b_, ast.Name) and b_.id == sname and (isinstance(tg_, ast.Subscript) or isinstance(st_, ast.AugAssign)):
            dropped.append((st_.lineno, U(st_)[:80] + "  [values of the working copy overwritten]"))
        if isinstance(st_, ast.Expr) and isinstance(st_.value, ast.Call):
            cl_ = st_.value
            outs_ = [x.id for k_ in cl_.keywords if k_.arg == "out" for x in ast.walk(k_.value) if isinstance(x, ast.Name)]
            meth_ = cl_.func.attr if isinstance(cl_.func, ast.Attribute) and isinstance(cl_.func.value, ast.Name) and cl_.func.value.id == sname else None
            if sname in outs_ or meth_ in ("fill", "put", "itemset", "partition") or (meth_ in ("clip", "round") and outs_):
                dropped.append((st_.lineno, U(st_)[:80] + "  [values of the working copy overwritten]"))
    obs.append(struct_ob("endpoints-are-samples", construct + "[every-draw-kept]", not dropped,
                         "the working copy must keep every draw of the sample: " + "; ".join(f"line {l}: `{t}`" for l, t in dropped[:2])
                         + " - the interval is then the shortest window of another sample", REL, dropped[0][0] if dropped else fn.lineno, tier="F"))
    deferred_undecided = None
    if undecided and not dropped:
        deferred_undecided = (f"endpoints-are-samples: the re-definition `{undecided[0][1]}` (line {undecided[0][0]}) of the working copy is not a "
                              f"recognised row-preserving form - not decided")
    post = []
    last_store = max([s_.lineno for s_ in stores] or [0])
    for st_ in ast.walk(fn):
        if isinstance(st_, (ast.Assign, ast.AugAssign)) and st_.lineno > last_store:
            tg_ = st_.targets[0] if isinstance(st_, ast.Assign) else st_.target
            b_ = tg_
            while isinstance(b_, (ast.Subscript, ast.Attribute)):
                b_ = b_.value
            if isinstance(b_, ast.Name) and b_.id in out_names:
                v_ = st_.value
                keeps = isinstance(st_, ast.Assign) and isinstance(tg_, ast.Name) and (
                    (isinstance(v_, ast.Call) and isinstance(v_.func, ast.Attribute) and v_.func.attr in ("squeeze", "copy", "reshape", "ravel", "flatten")
                     and U(v_.func.value) == tg_.id) or (isinstance(v_, ast.Attribute) and v_.attr == "T" and U(v_.value) == tg_.id))
                if not keeps:
                    post.append((st_.lineno, U(st_)[:80]))
    obs.append(struct_ob("endpoints-are-samples", construct + "[returned-as-stored]", not post,
                         "after the end points are stored the result may only change shape: " + "; ".join(f"line {l}: `{t}`" for l, t in post[:2])
                         + " changes the values (the end points are then no longer sample values, and any absolute rounding breaks the "
                         "covariance under rescaling)", REL, post[0][0] if post else fn.lineno, tier="F"))

    obs.append(_input_layout(fn, construct))
    # rows are draws and columns are variables because the caller says so: the axes are never exchanged on the strength of the shape
    swaps = []
    for st_ in ast.walk(fn):
        if isinstance(st_, (ast.Assign, ast.AugAssign)):
            v_ = st_.value
            for n_ in ast.walk(v_):
                if (isinstance(n_, ast.Attribute) and n_.attr == "T") or (isinstance(n_, ast.Call) and U(n_.func).split(".")[-1] in
                                                                           ("transpose", "swapaxes", "moveaxis", "rollaxis")):
                    swaps.append((st_.lineno, U(st_)[:80]))
    obs.append(struct_ob("input-layout", construct + "[axes-kept]", not swaps,
                         "the sample's axes are exchanged: " + "; ".join(f"line {l}: `{t}`" for l, t in swaps[:2])
                         + " - a sample with fewer draws than variables (or whatever the test looks at) is analysed along the wrong axis",
                         REL, swaps[0][0] if swaps else fn.lineno))

    obs.extend(dtype_hazard_obligations(prog, "float-arithmetic", ['inference/pdf/hdi.py']))
    from .common import call_order_obligations
    obs.extend(call_order_obligations(prog, "arguments-in-order", ['inference/pdf/hdi.py']))

    if deferred_undecided and all(o.ok for o in obs):
        raise AnalysisError(deferred_undecided)        # (a definite violation found by another rule stands; only a clean sheet is withheld)
    meta = {
        "explanation": "Ownership analysis of sample_hdi (copy before resize/sort; a removed copy is reported), normal-form "
                       "equality of the window offset L = int(fraction*n) and of the two slice bounds of the width computation "
                       "(both n-L rows), identity of the offset used for the upper end, axis arguments of the four column-wise "
                       "operations, and a no-arithmetic rule on the returned end points.",
        "assumptions": ["numpy sort/argmin/take_along_axis semantics"],
    }
    return obs, FLOORS, meta


def _inside_index(root, node):
    """True if node lies inside a subscript index or a call argument that is an index expression (i + L)."""
    for n in ast.walk(root):
        if isinstance(n, ast.Call) and U(n.func) == "take_along_axis":
            for a in n.args[1:]:
                if any(x is node for x in ast.walk(a)):
                    return True
        if isinstance(n, ast.Subscript) and any(x is node for x in ast.walk(n.slice)):
            return True
    return False
