"""C13 - sample_hdi returns the shortest interval with the requested fraction (tier S + F).

Decides: the caller's array is never mutated; the window offset used to form the widths
is the offset used to fetch the upper end; the window holds L+1 > fraction*n points; every
reduction is column-wise; end points are selected sample values (affine covariance).
Does not decide: arg-min correctness (numpy), tie behaviour.
"""
from __future__ import annotations
import ast
from ..model import fqual, get_kw
from ..own import Ownership
from ..symx import Expander
from ..anf import R
from .. import anf
from .common import struct_ob, formula_ob, guard, last_return, U
from ..report import AnalysisError

REL = "inference/pdf/hdi.py"
FLOORS = {"ownership": 1, "window-offset": 3, "axis-discipline": 5, "endpoints-are-samples": 1}


def run(prog, tier):
    anf.reset()
    obs = []
    mi = prog.module(REL)
    fn = prog.function(REL, "sample_hdi")
    construct = fqual(mi, fn)

    # ---------------------------------------------------------------- ownership
    own = Ownership(prog)
    summ = own.summary(mi, None, fn)
    hits = summ.mutates_params.get(0, [])
    obs.append(struct_ob("ownership", construct, not hits,
                         f"the caller's `{fn.args.args[0].arg}` array is mutated in place: {hits[:2]}", REL,
                         hits[0][0] if hits else fn.lineno, slots={"returns_alias_of_params": sorted(summ.returns_params)}))
    # positive example: removing the copy must be seen by the engine
    ex_fn = ast.parse("def f(sample):\n    s = sample\n    s.sort(axis=0)\n    return s\n").body[0]

    class _M:
        relpath, imports, functions = "<example>", {}, {}
    if not Ownership(prog).summary(_M, None, ex_fn).mutates_params.get(0):
        raise AnalysisError("ownership engine lost its positive example")

    # ---------------------------------------------------------------- window-offset
    src = {}
    for st in ast.walk(fn):
        if isinstance(st, ast.Assign) and len(st.targets) == 1:
            src.setdefault(U(st.targets[0]), []).append(st)
    def one(name):
        if name not in src or len(src[name]) != 1:
            raise AnalysisError(f"anchor vanished: single definition of `{name}` in sample_hdi")
        return src[name][0]
    ex = Expander(prog, mi, None)
    n = R.sym("n_samples")
    Ldef = one("L")
    L = guard(lambda: ex.eval(Ldef.value, {"fraction": R.sym("fraction"), "n_samples": n}))
    obs.append(formula_ob("window-offset", construct + "[L]", L, anf.fn_("int", R.sym("fraction") * n), REL, Ldef.lineno,
                          what="window offset L = int(fraction * n_samples)"))
    w = one("widths").value
    ok, why = False, U(w)
    if isinstance(w, ast.BinOp) and isinstance(w.op, ast.Sub) and isinstance(w.left, ast.Subscript) and isinstance(w.right, ast.Subscript):
        def row_slice(sub):
            sl = sub.slice.elts[0] if isinstance(sub.slice, ast.Tuple) else sub.slice
            rest = sub.slice.elts[1:] if isinstance(sub.slice, ast.Tuple) else []
            full = all(isinstance(r, ast.Slice) and r.lower is None and r.upper is None and r.step is None for r in rest)
            return sl, full
        (a, fa), (b, fb) = row_slice(w.left), row_slice(w.right)
        same_base = U(w.left.value) == U(w.right.value) == "s"
        if isinstance(a, ast.Slice) and isinstance(b, ast.Slice) and fa and fb and same_base \
                and a.step is None and b.step is None and a.upper is None and b.lower is None:
            lo = guard(lambda: ex.eval(a.lower, {"L": R.sym("L"), "n_samples": n}))
            hi = guard(lambda: ex.eval(b.upper, {"L": R.sym("L"), "n_samples": n}))
            # upper ends s[L+k] minus lower ends s[k], k = 0 .. n-L-1 : both slices have n - L rows
            ok = lo.eq(R.sym("L")) and hi.eq(n - R.sym("L"))
            why = f"widths = s[{lo}:] - s[:{hi}]"
    obs.append(struct_ob("window-offset", construct + "[widths]", ok,
                         f"widths must be s[L:] - s[:n_samples - L] (upper end minus lower end of every window of L+1 points): {why}",
                         REL, one("widths").lineno))
    # the upper end is fetched with the same offset
    stores = [s for s in ast.walk(fn) if isinstance(s, ast.Assign) and isinstance(s.targets[0], ast.Subscript)
              and U(s.targets[0].value) == "hdi"]
    tk = {}
    for s in stores:
        row = U(s.targets[0].slice.elts[0]) if isinstance(s.targets[0].slice, ast.Tuple) else U(s.targets[0].slice)
        for c in ast.walk(s.value):
            if isinstance(c, ast.Call) and U(c.func) == "take_along_axis":
                tk[row] = c
    ok = False
    why = f"{ {k: U(v) for k, v in tk.items()} }"
    if set(tk) == {"0", "1"}:
        i0, i1 = U(tk["0"].args[1]), U(tk["1"].args[1])
        ok = (U(tk["0"].args[0]) == "s" and U(tk["1"].args[0]) == "s"
              and i1.replace(" ", "") in (f"{i0}+L", f"L+{i0}"))
    idef = one("i").value
    oki = U(idef) == "expand_dims(widths.argmin(axis=0), axis=0)"
    obs.append(struct_ob("window-offset", construct + "[ends]", ok and oki,
                         f"lower end must be s[i] and upper end s[i + L] with i = argmin(widths) per column: {why}; i = `{U(idef)}`",
                         REL, fn.lineno))

    # ---------------------------------------------------------------- axis discipline
    checks = []
    for c in ast.walk(fn):
        if isinstance(c, ast.Call):
            f = U(c.func)
            if f == "s.sort":
                ax = get_kw(c, "axis", 0)
                checks.append(("sort", c, ax is not None and U(ax) == "0"))
            elif f == "widths.argmin":
                ax = get_kw(c, "axis", 0)
                checks.append(("argmin", c, ax is not None and U(ax) == "0"))
            elif f == "take_along_axis":
                ax = get_kw(c, "axis", 2)
                checks.append(("take_along_axis", c, ax is not None and U(ax) == "0"))
    for name, c, ok in checks:
        obs.append(struct_ob("axis-discipline", construct + f"[{name}@{c.lineno}]", ok,
                             f"`{U(c)}` must act along axis 0 (the sample axis) so that columns are independent",
                             REL, c.lineno))
    # the sort is unconditional (a top-level statement of the function)
    sort_stmts = [st for st in fn.body if isinstance(st, ast.Expr) and isinstance(st.value, ast.Call) and U(st.value.func) == "s.sort"]
    n_sorts = len([1 for n_, c, ok in checks if n_ == "sort"])
    obs.append(struct_ob("axis-discipline", construct + "[sort-unconditional]", len(sort_stmts) == 1 and n_sorts == 1,
                         "the copy must be sorted unconditionally before the windows are formed (a sortedness test on the raw values "
                         "is not reliable for every dtype, e.g. unsigned integers wrap in differences)", REL, fn.lineno))
    # the sort precedes the window computation
    sort_line = min([c.lineno for n_, c, ok in checks if n_ == "sort"] or [10 ** 9])
    if sort_line > one("widths").lineno:
        obs.append(struct_ob("axis-discipline", construct + "[sort-order]", False,
                             "the sample is sorted after the window widths are formed", REL, sort_line))

    # ---------------------------------------------------------------- end points are selections of sample values
    ok = all(not any(isinstance(n_, ast.BinOp) for n_ in ast.walk(ast.Module(body=[s], type_ignores=[]).body[0].value)
                     if not _inside_index(s.value, n_)) for s in stores)
    obs.append(struct_ob("endpoints-are-samples", construct, ok and len(stores) == 4,
                         "both end points must be sample values selected by index (no arithmetic on the values), which is what "
                         "makes the result covariant under positive affine maps", REL, fn.lineno,
                         slots={"stores": [U(s) for s in stores]}))

    meta = {
        "explanation": "Ownership analysis of sample_hdi (copy before resize/sort; a removed copy is reported), normal-form "
                       "equality of the window offset L = int(fraction*n) and of the two slice bounds of the width computation "
                       "(both n-L rows), identity of the offset used for the upper end, axis arguments of the four column-wise "
                       "operations, and a no-arithmetic rule on the returned end points.",
        "assumptions": ["numpy sort/argmin/take_along_axis semantics"],
    }
    return obs, FLOORS, meta


def _inside_index(root, node):
    """True if node lies inside a subscript index or a call argument that is an index expression (i + L)."""
    for n in ast.walk(root):
        if isinstance(n, ast.Call) and U(n.func) == "take_along_axis":
            for a in n.args[1:]:
                if any(x is node for x in ast.walk(a)):
                    return True
        if isinstance(n, ast.Subscript) and any(x is node for x in ast.walk(n.slice)):
            return True
    return False
