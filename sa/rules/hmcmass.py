"""Mass classes of the Hamiltonian sampler: the law the momenta are drawn from must be the Gaussian whose
precision is the metric of the kinetic energy K(r) = r . get_velocity(r) / 2.   Shared by C01 (invariance: the
momentum refresh must sample exp(-K)) and C07 (the Hamiltonian the trajectory conserves).

Decided in normal form, not by statement shape:
  diagonal masses  - scalar algebra (engine C): draw = T z, velocity = V r, obligation T*T*V = 1;
  full-matrix mass - non-commutative algebra (engine D): draw = T z, velocity = V r with V the matrix whose
                     lower Cholesky factor is L (L L^T = V), obligation T T^T V = I after rewriting V -> L L^T and
                     free cancellation of L L^-1 / L^T L^-T pairs (complete for words in L, L^T and their inverses).
"""
from __future__ import annotations
import ast
from ..term import pmatch
from ..model import qual, get_kw
from ..symx import Expander
from ..mexp import MExpander
from ..anf import R, Unsupported
from .. import ncf
from ..ncf import M
from .common import struct_ob, last_return, U
from ..report import AnalysisError

MASS = "inference/mcmc/hmc/mass.py"


def _is_normal(node):
    return isinstance(node, ast.Call) and isinstance(node.func, ast.Attribute) and node.func.attr in ("normal", "standard_normal")


def _normal_args(node):
    """(loc, scale) expressions of a Generator.normal(loc=0, scale=1, size=None) call."""
    if node.func.attr == "standard_normal":
        return None, None
    loc = node.args[0] if len(node.args) > 0 else get_kw(node, "loc")
    scale = node.args[1] if len(node.args) > 1 else get_kw(node, "scale")
    return loc, scale


def _diagonal(prog, ci, c2, sm, c, gv, rname):
    z, r = R.sym("z_draw"), R.sym("r_mom")
    ndraws = [0]

    def hook(ex, node, env):
        if _is_normal(node):
            ndraws[0] += 1
            loc, scale = _normal_args(node)
            v = z
            if scale is not None:
                v = ex.need_r(ex.eval(scale, env)) * v
            if loc is not None:
                v = v + ex.need_r(ex.eval(loc, env))
            return v
        return NotImplemented

    ex = Expander(prog, c2.module, ci)
    ex.opaque_self_attrs = set()
    ex.call_hook = hook
    draw = ex.need_r(ex.eval(last_return(sm).value, {}))
    if ndraws[0] != 1:
        raise Unsupported(f"{ndraws[0]} normal draws in the momentum sample")
    ex2 = Expander(prog, c.module, ci)
    ex2.opaque_self_attrs = set()
    vel = ex2.need_r(ex2.eval(last_return(gv).value, {rname: r}))
    lhs, rhs = draw * draw * vel, z * z * r
    return lhs.eq(rhs), f"draw = {draw}, velocity = {vel}: draw^2 * velocity = {lhs} (must be z^2 * r)"


def _strip(m, atom):
    """m = X . atom  ->  X (every word must end with the atom)."""
    out = {}
    for w, c in m.terms.items():
        if not w or w[-1] != (atom, False):
            raise Unsupported(f"term `{ncf.word_str(w)}` is not linear in {atom}")
        if any(f[0] == atom for f in w[:-1]):
            raise Unsupported(f"term `{ncf.word_str(w)}` is not linear in {atom}")
        out[w[:-1]] = c
    return M(out, 2)


def _matrix(prog, ci, c2, sm, c, gv, rname):
    init = ci.methods.get("__init__")
    if init is None:
        raise Unsupported("no constructor")
    # the constructor argument stored as inv_mass is the metric atom
    src = None
    for s in ast.walk(init):
        if isinstance(s, ast.Assign) and len(s.targets) == 1 and U(s.targets[0]) == "self.inv_mass":
            src = s.value
    params = {a.arg for a in init.args.args[1:]}
    if not (isinstance(src, ast.Name) and src.id in params):
        raise Unsupported(f"self.inv_mass is bound to `{U(src) if src is not None else None}`, not to a constructor argument")
    # symmetric only if the constructor demands it
    def demands_symmetry(s):
        """`assert (A == A.T).all()` / `assert allclose(A, A.T)` / `if not (..).all(): raise`: the comparison reduced by a CALL of
        all() (the bare method object `.all` is always true and demands nothing)."""
        t = s.test if isinstance(s, ast.Assert) else None
        if isinstance(s, ast.If) and s.body and isinstance(s.body[-1], ast.Raise) and isinstance(s.test, ast.UnaryOp) and isinstance(s.test.op, ast.Not):
            t = s.test.operand
        if t is None:
            return False
        a = src.id
        return any(pmatch(t, pt) is not None for pt in (f"({a} == {a}.T).all()", f"all({a} == {a}.T)", f"({a}.T == {a}).all()",
                                                          f"allclose({a}, {a}.T)", f"allclose({a}.T, {a})", f"array_equal({a}, {a}.T)",
                                                          f"allclose({a}, {a}.T, **_)"))
    symmetric = any(demands_symmetry(s) for s in init.body)
    ndraws = [0]

    def hook(ex, node, env):
        if _is_normal(node):
            loc, scale = _normal_args(node)
            for e in (loc, scale):
                if e is not None and not (isinstance(e, ast.Constant) and e.value == (0 if e is loc else 1)):
                    raise Unsupported(f"normal draw with `{U(e)}` in matrix context")
            ndraws[0] += 1
            return M.atom("z", 1)
        return NotImplemented

    ex = MExpander(prog, c2.module, ci)
    ex.opaque_self_attrs = set()
    ex.atoms = {src.id: ("A", 2, symmetric), "self.inv_mass": ("A", 2, symmetric), rname: ("r", 1, False)}
    ex.call_atoms = hook
    draw = ex.need_m(ex.eval(last_return(sm).value, {}))
    vel = ex.need_m(ex.eval(last_return(gv).value, {}))
    if ndraws[0] != 1:
        raise Unsupported(f"{ndraws[0]} normal draws in the momentum sample")
    T, V = _strip(draw, "z"), _strip(vel, "r")
    A = M.atom("A", 2)
    factor_of = ex.chol.get("L")
    prod = T.matmul(T.T()).matmul(V)
    if factor_of is not None and factor_of.eq(A):
        # rewrite the metric through its own Cholesky factor and cancel
        out = {}
        for w, cf in prod.terms.items():
            w2 = []
            for f in w:
                if f[0] == "A":
                    w2.extend([("L", False), ("L", True)])
                else:
                    w2.append(f)
            w2 = ncf.simplify(tuple(w2))
            out[w2] = out.get(w2, 0) + cf
        prod = M(out, 2)
        foreign = {f[0] for w in prod.terms for f in w} - {"L", "Linv", "LinvT"}
        if foreign:
            raise Unsupported(f"atoms {sorted(foreign)} next to the Cholesky factor")
    elif factor_of is not None:
        raise Unsupported(f"the Cholesky factor is of `{factor_of}`, not of the metric")
    ok = prod.eq(M.eye()) and not ex.problems
    why = f"draw = ({T}) z, velocity = ({V}) r with L L^T = A: T T^T V = {prod} (must be the identity)"
    if not symmetric:
        # velocity A r is the gradient of r.A r / 2 (and the Cholesky factor describes A) only for a symmetric A: the constructor must refuse others
        ok = False
        why = (f"the constructor does not demand a symmetric `{src.id}` (no `assert ({src.id} == {src.id}.T).all()` - note the call - or an "
               f"equivalent raise): for another matrix the velocity is not the gradient of the kinetic energy; " + why)
    if ex.problems:
        why += "; " + "; ".join(ex.problems[:2])
    return ok, why


CLAMPS = {"maximum", "minimum", "clip", "fmax", "fmin", "where", "nan_to_num"}


def _clamped_factor(prog, ci, sm, gv):
    """The attributes `sample_momentum` reads are computed in the constructor through a clamp (maximum / clip / where ...) of a
    quantity derived from the inverse mass, while the attributes `get_velocity` reads are not: the momenta are then drawn for a
    different matrix than the one the kinetic energy uses whenever the clamp is active - T T^T V = I cannot hold for every input."""
    c0, init = prog.find_method(ci, "__init__")
    if init is None:
        return None
    me = init.args.args[0].arg
    defs = {}
    for st in ast.walk(init):
        if isinstance(st, ast.Assign):
            for t in st.targets:
                for x in (t.elts if isinstance(t, (ast.Tuple, ast.List)) else [t]):
                    if isinstance(x, ast.Name):
                        defs.setdefault(x.id, []).append(st.value)
                    elif isinstance(x, ast.Attribute) and isinstance(x.value, ast.Name) and x.value.id == me:
                        defs.setdefault("self." + x.attr, []).append(st.value)

    def closure(key, seen):
        out = []
        for v in defs.get(key, ()):
            out.append(v)
            for n in ast.walk(v):
                k2 = n.id if isinstance(n, ast.Name) else ("self." + n.attr) if isinstance(n, ast.Attribute) and isinstance(n.value, ast.Name) and n.value.id == me else None
                if k2 and k2 in defs and k2 not in seen:
                    seen.add(k2)
                    out += closure(k2, seen)
        return out

    def clamp_in(fn):
        reads = {"self." + n.attr for n in ast.walk(fn) if isinstance(n, ast.Attribute) and isinstance(n.value, ast.Name) and n.value.id == fn.args.args[0].arg}
        hits = []
        for r in sorted(reads):
            for v in closure(r, {r}):
                for n in ast.walk(v):
                    if isinstance(n, ast.Call):
                        nm = n.func.attr if isinstance(n.func, ast.Attribute) else n.func.id if isinstance(n.func, ast.Name) else None
                        if nm in CLAMPS or (nm in ("max", "min") and isinstance(n.func, ast.Name) and len(n.args) >= 2):
                            hits.append((r, n.lineno, U(n)[:70]))
        return hits
    hs, hv = clamp_in(sm), clamp_in(gv)
    if hs and not hv:
        r, line, text = hs[0]
        return (f"{r}, which scales the momentum draw, is computed through `{text}` (line {line}) - a clamped copy of the inverse mass - while the "
                f"velocity / kinetic energy use the inverse mass as given: whenever the clamp is active the momenta are not drawn from exp(-K)")
    return None


def momentum_obligations(prog, rule, mass_rule=None):
    """One obligation per concrete mass class: covariance of the momentum draw = inverse of the velocity metric."""
    out = []
    for ci in prog.subclasses("ParticleMass"):
        c, gv = prog.find_method(ci, "get_velocity")
        c2, sm = prog.find_method(ci, "sample_momentum")
        if gv is None or sm is None:
            raise AnalysisError(f"anchor vanished: {ci.name}.get_velocity / sample_momentum")
        rname = gv.args.args[1].arg
        linalg = any(isinstance(n, ast.MatMult) or (isinstance(n, ast.Call) and U(n.func).split(".")[-1] in ("dot", "matmul"))
                     for f in (gv, sm) for n in ast.walk(f))
        form = "matrix" if linalg else "diagonal"
        try:
            if linalg:
                ok, why = _matrix(prog, ci, c2, sm, c, gv, rname)
            else:
                try:
                    ok, why = _diagonal(prog, ci, c2, sm, c, gv, rname)
                except Unsupported:
                    form = "matrix"
                    ok, why = _matrix(prog, ci, c2, sm, c, gv, rname)
        except Unsupported as e:
            hz = _clamped_factor(prog, ci, sm, gv)
            if hz:
                # a definite reason that needs no normal form: the draw and the velocity are built from different matrices
                ok, why = False, hz
            else:
                raise AnalysisError(f"{rule}: momentum law of {ci.name} not expressible in normal form: {e}")
        out.append(struct_ob(rule, qual(c2, sm) + f"[{ci.name}]", ok,
                             "momenta must be drawn with covariance inverse to the metric of the kinetic energy "
                             "(r . get_velocity(r) / 2): " + why,
                             MASS, sm.lineno, slots={"form": form}, tier="F"))
        if mass_rule:
            # the velocity is a linear map of the momentum (established above by the normal form: velocity = V r)
            out.append(struct_ob(mass_rule, qual(c, gv) + f"[{ci.name}]", True,
                                 "velocity is linear in the momentum", MASS, gv.lineno, slots={"form": form, "velocity": why.split(":")[0]},
                                 tier="F"))
    return out
