"""C20 - conditional approximation (tier F + S).

Decides: the inverse-CDF transform satisfies F(T(x)) = x for the linear density on a cell;
the near-zero branch is its first-order expansion; delta is that density's slope parameter;
cell probabilities are mean height x width; samples are x[k] + T dx[k]; the conditional is
normalised by its own quadrature on the grid it returns; the search grid spans the bounds.
Does not decide: the search heuristics (coverage of the high-density region).
"""
from __future__ import annotations
import ast
from fractions import Fraction
from ..model import fqual
from ..symx import Expander
from ..anf import R, Unsupported
from .. import anf
from .common import dtype_hazard_obligations, struct_ob, formula_ob, guard, last_return, U
from ..report import AnalysisError
from ..own import Ownership
from ..term import Resolver, pmatch, find_all, abstract, anf_of

REL = "inference/approx/conditional.py"
FLOORS = {"float-arithmetic": 1, "edge-search": 1, "inverse-cdf": 1, "taylor-branch": 2, "branch-dispatch": 1, "delta-form": 2, "cell-weight": 1,
          "sample-form": 2, "normalised": 1, "grid-in-bounds": 1,
          "conditioning-point": 2, "every-parameter-covered": 2, "sampling-form": 1}


def _bracketing(fn):
    """'' if fn is a bisection (trial point = mid-point of the bracket taken from its array argument, inside a bounded loop with at
    least 15 iterations by default); otherwise the reason."""
    rz = Resolver(fn)
    loops = [l for l in fn.body if isinstance(l, ast.For)]
    if len(loops) != 1 or pmatch(loops[0].iter, "range(_n)") is None:
        return "has no single bounded iteration loop"
    nparam = U(loops[0].iter.args[0])
    defaults = dict(zip([a.arg for a in fn.args.args][-len(fn.args.defaults):], fn.args.defaults)) if fn.args.defaults else {}
    d = defaults.get(nparam)
    if not (isinstance(d, ast.Constant) and isinstance(d.value, int) and d.value >= 15):
        return f"iterates `{nparam}` = {U(d) if d is not None else '?'} times by default (fewer than 15 halvings)"
    # the value handed to the objective inside the loop
    trial = None
    for n in ast.walk(loops[0]):
        if isinstance(n, ast.Call) and isinstance(n.func, ast.Name) and n.func.id == fn.args.args[0].arg and n.args:
            trial = rz.term(n.args[0], rz.stmt_of(n))
    if trial is None:
        return "never evaluates its objective in the loop"
    names = sorted({x.id for x in ast.walk(trial) if isinstance(x, ast.Name)})
    try:
        v = anf_of(trial)
    except Unsupported:
        return f"trial point `{U(trial)}` is outside the algebra"
    if len(names) != 2 or not v.eq((R.sym(names[0]) + R.sym(names[1])) / 2):
        return f"takes `{U(trial)}` as its trial point, not the mid-point of the bracket: no guaranteed shrink per iteration"
    return ""


def run(prog, tier):
    anf.reset()
    obs = []
    mi = prog.module(REL)
    x, dh, T = R.sym("x"), R.sym("dh"), R.sym("T")
    F = dh * T * T + (1 - dh) * T - x                 # CDF of the unit-cell linear density minus the target

    # ---------------------------------------------------------------- inverse-cdf
    tf = prog.function(REL, "trapezium_full")
    ex = Expander(prog, mi, None)
    full = guard(lambda: ex.run(tf.body, {tf.args.args[0].arg: x, tf.args.args[1].arg: dh}))
    resid = anf.subst(F, {("sym", "T"): full})
    obs.append(formula_ob("inverse-cdf", fqual(mi, tf), resid, R.const(0), REL, tf.lineno,
                          what="dh*T^2 + (1-dh)*T - x with T = trapezium_full(x, dh)"))

    # ---------------------------------------------------------------- taylor-branch (derived from F, not transcribed)
    tn = prog.function(REL, "trapezium_near_zero")
    near = guard(lambda: ex.run(tn.body, {tn.args.args[0].arg: x, tn.args.args[1].arg: dh}))
    try:
        T0 = anf.subst(near, {("sym", "dh"): R.const(0)})
        T1 = anf.subst(anf.diff(near, ("sym", "dh")), {("sym", "dh"): R.const(0)})
    except Unsupported as e:
        # the expansion is used exactly where dh is (near) zero: it must be regular there
        T0 = T1 = None
        obs.append(struct_ob("taylor-branch", fqual(mi, tn) + "[order-0]", False,
                             f"the near-zero branch is singular at dh = 0 ({e}): `{U(last_return(tn).value)[:120]}`", REL, tn.lineno, tier="F"))
        obs.append(struct_ob("taylor-branch", fqual(mi, tn) + "[order-1]", False, "see order-0", REL, tn.lineno, tier="F"))
    if T0 is not None:
        obs.append(formula_ob("taylor-branch", fqual(mi, tn) + "[order-0]", T0, x, REL, tn.lineno,
                              what="near-zero branch at dh = 0"))
    dF_ddh = anf.diff(F, ("sym", "dh"))
    dF_dT = anf.diff(F, ("sym", "T"))
    slope = anf.subst(-(dF_ddh.div(dF_dT)), {("sym", "dh"): R.const(0), ("sym", "T"): x})
    if T1 is not None:
        obs.append(formula_ob("taylor-branch", fqual(mi, tn) + "[order-1]", T1, slope, REL, tn.lineno,
                              what="d(near-zero branch)/d(dh) at dh = 0 vs the implicit-function derivative of the exact transform"))

    # ---------------------------------------------------------------- dispatch between the branches
    tt = prog.function(REL, "trapezium_transform")
    # as resolved terms: every masked store `t[M] = f(x[M], dh[M])` uses one mask M in all three places; M is `abs(dh) < c` for the
    # expansion and its complement for the exact transform; without any near-zero cell the exact transform is applied to everything
    rtt = Resolver(tt, prog, mi, None)
    xa_, da_ = tt.args.args[0].arg, tt.args.args[1].arg
    seen_near = seen_full = False
    okm = True
    for st_ in ast.walk(tt):
        if isinstance(st_, ast.Assign) and len(st_.targets) == 1 and isinstance(st_.targets[0], ast.Subscript) and isinstance(st_.value, ast.Call) \
                and U(st_.value.func) in ("trapezium_near_zero", "trapezium_full") and len(st_.value.args) == 2:
            masks = [st_.targets[0].slice] + [a_.slice if isinstance(a_, ast.Subscript) else None for a_ in st_.value.args]
            bases = [U(a_.value) if isinstance(a_, ast.Subscript) else None for a_ in st_.value.args]
            if None in masks or bases != [xa_, da_]:
                okm = False
                continue
            mt = [str(U(rtt.term(m_, st_))) for m_ in masks]
            if len(set(mt)) != 1:
                okm = False
                continue
            mnode = ast.parse(mt[0], mode="eval").body
            near_b = pmatch(mnode, f"abs({da_}) < _c")
            full_b = pmatch(mnode, f"~(abs({da_}) < _c)") or pmatch(mnode, f"abs({da_}) >= _c") or pmatch(mnode, f"logical_not(abs({da_}) < _c)")
            if U(st_.value.func) == "trapezium_near_zero" and near_b is not None:
                seen_near = True
            elif U(st_.value.func) == "trapezium_full" and full_b is not None:
                seen_full = True
            else:
                okm = False
    rets_tt = [U(t_) for t_ in rtt.return_terms()]
    ok = okm and seen_near and seen_full and f"trapezium_full({xa_}, {da_})" in rets_tt
    # the masked path is taken as soon as ANY cell is near zero (with `.all()` a single regular cell sends the near-zero ones through
    # the exact transform, which divides by their dh)
    for if_ in ast.walk(tt):
        if isinstance(if_, ast.If) and any(isinstance(x, ast.Call) and U(x.func) == "trapezium_near_zero" for b_ in if_.body for x in ast.walk(b_)):
            gt_ = rtt.term(if_.test, if_)
            if not any(pmatch(gt_, pt_) is not None for pt_ in (f"(abs({da_}) < _c).any()", f"any(abs({da_}) < _c)", f"(abs({da_}) < _c).sum() > 0",
                                                                f"count_nonzero(abs({da_}) < _c) > 0")):
                ok = False
    thr = [n for n in ast.walk(tt) if isinstance(n, ast.Compare) and "abs(dh)" in U(n.left)]
    okt = len(thr) == 1 and isinstance(thr[0].comparators[0], ast.Constant) and 0 < thr[0].comparators[0].value <= 1e-3
    obs.append(struct_ob("branch-dispatch", fqual(mi, tt), ok and okt,
                         "near-zero cells must use the expansion, all others the exact transform, each on its own elements "
                         "(threshold a small positive literal)", REL, tt.lineno))

    # ---------------------------------------------------------------- piecewise_linear_sample
    ps = prog.function(REL, "piecewise_linear_sample")
    xs, pd, ns = ps.args.args[0].arg, ps.args.args[1].arg, ps.args.args[2].arg
    ret = last_return(ps)
    rzp = Resolver(ps, prog, mi, None)
    rt = rzp.term(ret.value, ret)
    # roles, from the resolved return term:  x[k] + T(U, DELTA[k]) * DX[k]  with  k = rng.choice(W.size, size=n, p=W)
    b = None
    for pat in (f"{xs}[_k] + trapezium_transform(rng.random(size={ns}), _d[_k]) * _w[_k]",
                f"{xs}[_k] + trapezium_transform(rng.random({ns}), _d[_k]) * _w[_k]"):
        b = pmatch(rt, pat)
        if b is not None:
            break
    okpos = b is not None
    # "the same draw": the cell index is drawn ONCE - a random call written out at each use is a new draw at each use (the
    # resolved term cannot tell, it inlines a local into all its uses)
    n_draws = sum(1 for x in ast.walk(ps) if isinstance(x, ast.Call) and isinstance(x.func, ast.Attribute) and x.func.attr in
                  ("choice", "integers", "randint", "multinomial", "searchsorted"))
    if okpos and n_draws != 1:
        okpos = False
    obs.append(struct_ob("sample-form", fqual(mi, ps) + "[position]", okpos,
                         f"samples must be x[k] + T(U, delta[k]) * dx[k] for the chosen cell k, all three indexed by the same draw "
                         f"({n_draws} cell-index draw(s) written in the function): returned term `{U(rt)[:300]}`", REL, ret.lineno))
    ABS = [(f"{pd}[1:]", "P1"), (f"{pd}[:-1]", "P0"), (f"{xs}[1:]", "X1"), (f"{xs}[:-1]", "X0")]
    p1, p0 = R.sym("P1"), R.sym("P0")
    x1, x0 = R.sym("X1"), R.sym("X0")

    def nf(text_or_node):
        node = ast.parse(text_or_node, mode="eval").body if isinstance(text_or_node, str) else text_or_node
        ab, _ = abstract(node, ABS + [("_z.sum()", "TOTAL")])
        return anf_of(ab)
    if b is None:
        for rule_, det_ in (("delta-form", "[slope]"), ("cell-weight", ""), ("sample-form", "[cell-choice]")):
            obs.append(struct_ob(rule_, fqual(mi, ps) + det_, False, "the sample position is not of the recognised form (see sample-form[position])",
                                 REL, ps.lineno))
    else:
        kb = None
        for pat in (f"rng.choice(_W.size, size={ns}, p=_W)", f"rng.choice(_W.size, {ns}, p=_W)", f"rng.choice(len(_W), size={ns}, p=_W)",
                    f"rng.choice(_W.shape[0], size={ns}, p=_W)", f"rng.choice(len(_W), {ns}, p=_W)", f"rng.choice(_W.shape[0], {ns}, p=_W)",
                    f"rng.choice(arange(_W.size), size={ns}, p=_W)", f"rng.choice(arange(len(_W)), size={ns}, p=_W)"):
            kb = pmatch(ast.parse(b["_k"], mode="eval").body, pat)
            if kb is not None:
                break
        obs.append(struct_ob("sample-form", fqual(mi, ps) + "[cell-choice]", kb is not None,
                             f"cells must be drawn as rng.choice(W.size, size=n, p=W): `{b['_k'][:200]}`", REL, ps.lineno))
        try:
            delta = nf(b["_d"])
            okd = delta.eq((p1 - p0).div(p1 + p0))
            whyd = f"code has {delta}"
        except Unsupported as e:
            okd, whyd = False, f"`{b['_d'][:160]}` is outside the algebra ({e})"
        obs.append(struct_ob("delta-form", fqual(mi, ps) + "[slope]", okd,
                             "delta = (p1 - p0)/(p1 + p0), the slope parameter of the cell's linear density (the dh of the CDF "
                             "dh*u^2 + (1-dh)*u that the transform inverts), whatever the scale of the table: " + whyd, REL, ps.lineno, tier="F"))
        try:
            width = nf(b["_w"])
            okw_ = width.eq(x1 - x0)
        except Unsupported:
            okw_ = False
        obs.append(struct_ob("delta-form", fqual(mi, ps) + "[cell-width]", okw_,
                             f"the offset inside the cell is scaled by the cell's own width x[k+1] - x[k]: `{b['_w'][:160]}`", REL, ps.lineno, tier="F"))
        okcw, whyw = False, "cell choice not recognised"
        if kb is not None:
            wb = None
            wnode = ast.parse(kb["_W"], mode="eval").body
            for pat in ("_a / _a.sum()", "_a / sum(_a)"):
                wb = pmatch(wnode, pat)
                if wb is not None:
                    break
            if wb is None:
                whyw = f"weights `{kb['_W'][:200]}` are not <cell probabilities> divided by their own sum"
            else:
                try:
                    w = nf(wb["_a"])
                    ratio = anf.proportional(w, Fraction(1, 2) * (p1 + p0) * (x1 - x0))
                    okcw = ratio is not None and ratio > 0
                    whyw = f"code has weights = {w} (ratio to the reference: {ratio}), normalised by their sum"
                except Unsupported as e:
                    whyw = f"weights outside the algebra ({e})"
        obs.append(struct_ob("cell-weight", fqual(mi, ps), okcw,
                             "cell probabilities must be proportional to mean height x width = 1/2 (p1+p0)(x1-x0) and normalised by "
                             "their sum; " + whyw, REL, ps.lineno, tier="F"))

    # ---------------------------------------------------------------- evaluate_conditional: normalised on the returned grid
    ec = prog.function(REL, "evaluate_conditional")
    rz = Resolver(ec, prog, mi, None)
    fpar = ec.args.args[0].arg
    rets = rz.returns()
    ok, why = False, ""
    G = None
    if len(rets) == 1 and isinstance(rets[0].value, ast.Tuple) and len(rets[0].value.elts) == 2 and isinstance(rets[0].value.elts[0], ast.Name):
        G = rets[0].value.elts[0].id
        dens = rz.term(rets[0].value.elts[1], rets[0], keep=(G,))
        pats = [f"exp(array([{fpar}(_x) for _x in {G}]) - _m) / simpson(exp(array([{fpar}(_x) for _x in {G}]) - _m), x={G})",
                f"exp(array([{fpar}(_x) for _x in {G}]) - _m) / simpson(exp(array([{fpar}(_x) for _x in {G}]) - _m), {G})"]
        ok = any(pmatch(dens, pt) is not None for pt in pats)
        why = f"returned density term `{U(dens)[:260]}`"
    else:
        why = "return is not (grid, density)"
    obs.append(struct_ob("normalised", fqual(mi, ec), ok,
                         "the returned density must be exp(log-density - const) on the returned grid divided by its own Simpson "
                         "integral over that grid: " + why, REL, ec.lineno))
    # ---------------------------------------------------------------- grid edges: a bracketing search with guaranteed shrink
    edge_why = []
    n_search = 0
    if G is not None:
        gt = rz.value_of(G, rets[0])
        bg = pmatch(gt, "linspace(_lo, _hi, _n)")
        if bg is None:
            edge_why.append(f"the evaluation grid `{U(gt)[:160]}` is not linspace(lower edge, upper edge, grid_size)")
        else:
            for end_ in ("_lo", "_hi"):
                et = ast.parse(bg[end_], mode="eval").body
                for n in ast.walk(et):
                    if isinstance(n, ast.Call) and isinstance(n.func, ast.Name) and n.func.id in mi.functions:
                        n_search += 1
                        callee = mi.functions[n.func.id]
                        g_ = _bracketing(callee)
                        if g_:
                            edge_why.append(f"edge search `{n.func.id}` {g_}")
                        # the iteration budget the halving argument relies on is the callee's default: a smaller one given at the call
                        # site stops the search before the crossing is located
                        cparams = [a.arg for a in callee.args.args]
                        cdef = dict(zip(cparams[len(cparams) - len(callee.args.defaults):], callee.args.defaults))
                        given = {cparams[k_]: a_ for k_, a_ in enumerate(n.args) if k_ < len(cparams)}
                        given.update({k_.arg: k_.value for k_ in n.keywords if k_.arg})
                        for pn_, dv_ in cdef.items():
                            if pn_ in given and isinstance(dv_, ast.Constant) and isinstance(dv_.value, (int, float)) and ("itr" in pn_ or "iter" in pn_):
                                gv_ = given[pn_]
                                if isinstance(gv_, ast.Constant) and isinstance(gv_.value, (int, float)):
                                    if gv_.value < dv_.value:
                                        edge_why.append(f"`{U(n)[:80]}` cuts the iteration budget of `{n.func.id}` from {dv_.value} to {gv_.value}")
                                else:
                                    raise AnalysisError(f"edge-search: the iteration budget `{pn_}={U(gv_)}` handed to {n.func.id} is not a constant - not decided")
    obs.append(struct_ob("edge-search", fqual(mi, ec), not edge_why and n_search >= 2,
                         "each grid edge must come from a threshold-crossing search that halves its bracket every iteration (so that a fixed "
                         "number of iterations locates the crossing for any bounds): " + "; ".join(edge_why) + f" [{n_search} searches found]",
                         REL, ec.lineno))
    # ---------------------------------------------------------------- grid spans the bounds
    gc = prog.function(REL, "get_conditionals")
    rg = Resolver(gc, prog, mi, None)
    bpar, cpar = gc.args.args[1].arg, gc.args.args[2].arg
    why = []
    calls = rg.calls(lambda f: f == "evaluate_conditional")
    if len(calls) != 1:
        why.append(f"{len(calls)} calls of evaluate_conditional")
    else:
        call, st_ = calls[0]
        loop = rg.parent.get(id(st_), (None, None, None))[1]
        if not (isinstance(loop, ast.For) and isinstance(loop.target, ast.Name)):
            why.append("evaluate_conditional is not called in a loop over the variables")
        else:
            i = loop.target.id
            ncall = rg.norm_call(call)
            pts = ncall.args[1] if len(ncall.args) > 1 else None
            fobj = ncall.args[0] if ncall.args else None
            if isinstance(pts, ast.Name) and pts.id in rg.binds:
                seen_names, todo, n_base = set(), [pts.id], 0
                while todo:
                    nm = todo.pop()
                    if nm in seen_names or nm not in rg.binds:
                        continue
                    seen_names.add(nm)
                    for kind, bst, val, k in rg.binds[nm]:
                        vt = rg.term(val, bst, keep=(nm,)) if val is not None else None
                        if isinstance(vt, ast.Name) and vt.id in rg.binds:
                            todo.append(vt.id)          # a plain alias of another local: follow it
                            continue
                        base = vt is not None and (pmatch(vt, f"linspace(*{bpar}[{i}], _n)") is not None
                                                   or pmatch(vt, f"linspace({bpar}[{i}][0], {bpar}[{i}][1], _n)") is not None)
                        ins = vt is not None and pmatch(vt, f"insert({nm}, searchsorted({nm}, {cpar}[{i}]), {cpar}[{i}])") is not None
                        n_base += bool(base)
                        if not (base or ins):
                            why.append(f"search points `{U(vt)[:160] if vt is not None else None}` are not linspace over bounds[{i}] (plus the "
                                       f"conditioning coordinate {cpar}[{i}] inserted in order)")
                if n_base != 1 and not why:
                    why.append(f"{n_base} base grids linspace(*bounds[{i}], n) feed the search points")
                # the coordinate is left out only when it is *exactly* one of the grid points: a tolerance-based test
                # (isclose / allclose) has an absolute scale and drops the point for small-valued parameters
                for nm in seen_names:
                    for kind, bst, val, k in rg.binds.get(nm, []):
                        if val is not None and isinstance(val, ast.Call) and U(val.func) == "insert":
                            owner = rg.parent.get(id(bst), (None, None, None))[1]
                            if isinstance(owner, ast.If):
                                tt = rg.term(owner.test, owner, keep=(nm,))
                                exact = any(pmatch(tt, pt) is not None for pt in (
                                    f"({nm} != {cpar}[{i}]).all()", f"not ({nm} == {cpar}[{i}]).any()", f"{cpar}[{i}] not in {nm}",
                                    f"all({nm} != {cpar}[{i}])", f"not any({nm} == {cpar}[{i}])"))
                                if not exact:
                                    why.append(f"the conditioning coordinate is inserted only when `{U(tt)[:120]}`, which is not an exact "
                                               f"membership test of the search grid")
            else:
                vt = rg.term(pts, st_) if pts is not None else None
                if vt is None or pmatch(vt, f"linspace(*{bpar}[{i}], _n)") is None:
                    why.append(f"search points `{U(vt)[:160] if vt is not None else None}`")
            # the conditional object is switched to variable i before it is evaluated
            fname = U(fobj) if fobj is not None else "?"
            sw = [s_ for s_ in loop.body if isinstance(s_, ast.Assign) and U(s_.targets[0]) == f"{fname}.variable_index"]
            if not (len(sw) == 1 and U(sw[0].value) == i and sw[0].lineno < st_.lineno):
                why.append(f"`{fname}.variable_index = {i}` does not precede the evaluation")
            # results stored in column i
            outs = [s_ for s_ in loop.body if isinstance(s_, ast.Assign) and isinstance(s_.targets[0], ast.Subscript)]
            for s_ in outs:
                if pmatch(s_.targets[0], f"_a[:, {i}]") is None:
                    why.append(f"`{U(s_)}` does not store into column {i}")
    obs.append(struct_ob("grid-in-bounds", fqual(mi, gc), not why,
                         "the search grid of variable i must be linspace over bounds[i] plus the conditioning coordinate, "
                         "inserted in order, for the conditional of that same variable: " + "; ".join(why), REL, gc.lineno))

    # ---------------------------------------------------------------- the conditioning point is never disturbed
    from ..own import Ownership, class_mutation_sinks
    cc = prog.cls("Conditional")
    own = Ownership(prog)
    hits = [(c_, f, line, text) for root, c_, f, line, text in
            class_mutation_sinks(own, prog, cc, {"theta": {("store", "theta")}})
            if root == ("store", "theta")]
    obs.append(struct_ob("conditioning-point", f"{mi.name}.Conditional[theta-preserved]", not hits,
                         "the stored conditioning point is written in place"
                         + (f" at line {hits[0][2]} in {hits[0][1].name}: `{hits[0][3]}`" if hits else "")
                         + "; one Conditional object is re-used for every variable, so a coordinate left displaced by one "
                           "scan moves the point through which the next conditional is taken", REL,
                         hits[0][2] if hits else cc.node.lineno))
    # ... nor replaced from outside: in the module, no statement stores to `.theta` of an object other than inside Conditional.__init__
    outside = []
    for fname_, f_ in mi.functions.items():
        for st_ in ast.walk(f_):
            tg_ = st_.targets if isinstance(st_, ast.Assign) else [st_.target] if isinstance(st_, ast.AugAssign) else []
            for t_ in tg_:
                for el_ in (t_.elts if isinstance(t_, ast.Tuple) else [t_]):
                    b_ = el_
                    while isinstance(b_, ast.Subscript):
                        b_ = b_.value
                    if isinstance(b_, ast.Attribute) and b_.attr == "theta":
                        outside.append(f"{fname_} line {st_.lineno}: `{U(st_)[:80]}`")
    obs.append(struct_ob("conditioning-point", f"{mi.name}[theta-not-replaced]", not outside,
                         "the conditioning point of a Conditional is fixed when it is built: " + "; ".join(outside[:2])
                         + " moves it between variables, so later conditionals are taken through another point", REL,
                         cc.node.lineno, tier="F"))
    cfn = cc.methods.get("__call__")
    body = [U(s_) for s_ in cfn.body]
    xarg = cfn.args.args[1].arg
    body = [b_.replace("= array(self.theta)", "= self.theta.copy()").replace("= copy(self.theta)", "= self.theta.copy()")
            .replace("= self.theta + 0", "= self.theta.copy()") for b_ in body]      # spellings of "a copy of the conditioning point"
    ok = (len(body) == 3 and body[0].endswith("= self.theta.copy()") and body[1] == f"{body[0].split(' =')[0]}[self.variable_index] = {xarg}"
          and body[2] == f"return self.posterior({body[0].split(' =')[0]})")
    obs.append(struct_ob("conditioning-point", f"{mi.name}.Conditional.__call__", ok,
                         f"the conditional must evaluate the posterior at a copy of the conditioning point with only coordinate "
                         f"variable_index replaced; body is {body}", REL, cfn.lineno))

    # the functions of the module leave their array arguments alone: the conditioning point the caller passed is also the one a
    # Conditional keeps (no copy is made), so a coordinate written into it moves every later conditional
    own2 = Ownership(prog)
    for fname_ in ("get_conditionals", "conditional_sample", "evaluate_conditional", "piecewise_linear_sample"):
        f_ = mi.functions.get(fname_)
        if f_ is None:
            continue
        sm_ = own2.summary(mi, None, f_)
        pn_ = [a_.arg for a_ in f_.args.args]
        hits_ = {pn_[i_] if i_ < len(pn_) else f"#{i_}": h_ for i_, h_ in sm_.mutates_params.items()}
        obs.append(struct_ob("conditioning-point", fqual(mi, f_) + "[arguments-not-mutated]", not hits_,
                             "an array argument is written in place: " + "; ".join(f"`{k_}` at {v_[:1]}" for k_, v_ in list(hits_.items())[:2]), REL,
                             f_.lineno, tier="F"))
    # a local that is just another name for a second local (`w = means`) and is then updated in place changes that second local too:
    # a later read of it (delta = .. / means) sees the updated buffer
    for fname_, f_ in mi.functions.items():
        alias = {}
        for st_ in f_.body:
            if isinstance(st_, ast.Assign) and len(st_.targets) == 1 and isinstance(st_.targets[0], ast.Name) and isinstance(st_.value, ast.Name):
                alias[st_.targets[0].id] = (st_.value.id, st_.lineno)
        bad_al = []
        for st_ in ast.walk(f_):
            tg_ = st_.target if isinstance(st_, ast.AugAssign) else st_.targets[0] if isinstance(st_, ast.Assign) and isinstance(st_.targets[0], ast.Subscript) else None
            b_ = tg_
            while isinstance(b_, ast.Subscript):
                b_ = b_.value
            if isinstance(b_, ast.Name) and b_.id in alias and (isinstance(st_, ast.AugAssign) or isinstance(tg_, ast.Subscript)):
                other, l0 = alias[b_.id]
                later = [x for x in ast.walk(f_) if isinstance(x, ast.Name) and x.id == other and isinstance(x.ctx, ast.Load) and x.lineno > st_.lineno]
                if later:
                    bad_al.append(f"line {st_.lineno}: `{U(st_)[:60]}` updates `{b_.id}`, another name for `{other}` (line {l0}), which is read again at line {later[0].lineno}")
        if bad_al:
            obs.append(struct_ob("delta-form", fqual(mi, f_) + "[no-aliased-update]", False, "; ".join(bad_al[:2]), REL, f_.lineno, tier="F"))
    from .common import column_loop_obligations
    obs.extend(column_loop_obligations(prog, "every-parameter-covered", REL, ["get_conditionals", "conditional_sample"]))
    # conditional_sample draws every column with the sampler decided above (piecewise_linear_sample), from that column's own axis and
    # density: another inverse-cdf written in place is not the piecewise-linear law the tables describe
    csf = prog.function(REL, "conditional_sample")
    rcs = Resolver(csf, prog, mi, None)
    col_stores = [s_ for s_ in ast.walk(csf) if isinstance(s_, ast.Assign) and len(s_.targets) == 1 and isinstance(s_.targets[0], ast.Subscript)
                  and pmatch(s_.targets[0], "_a[:, _i]") is not None]
    whyc = []
    for s_ in col_stores:
        bi = pmatch(s_.targets[0], "_a[:, _i]")
        vt = rcs.term(s_.value, s_)
        if isinstance(vt, ast.Call):
            vt = rcs.norm_call(vt)
        ok_ = any(pmatch(vt, pt_, {"_i": bi["_i"]}) is not None for pt_ in ("piecewise_linear_sample(_x[:, _i], _p[:, _i], _n)",
                                                                             "piecewise_linear_sample(_x[:, _i], _p[:, _i], _n, **_)"))
        if not ok_:
            # the same columns walked as rows of the transposes: for i, (axis, density) in enumerate(zip(X.T, P.T))
            for lp_ in ast.walk(csf):
                if isinstance(lp_, ast.For) and any(x is s_ for x in ast.walk(lp_)) and pmatch(lp_.iter, "enumerate(zip(_x.T, _p.T))") is not None \
                        and isinstance(lp_.target, ast.Tuple) and len(lp_.target.elts) == 2 and isinstance(lp_.target.elts[1], ast.Tuple) \
                        and len(lp_.target.elts[1].elts) == 2 and U(lp_.target.elts[0]) == bi["_i"]:
                    a_, d_ = [U(x) for x in lp_.target.elts[1].elts]
                    sv_ = rcs.norm_call(s_.value) if isinstance(s_.value, ast.Call) else s_.value
                    if pmatch(sv_, f"piecewise_linear_sample({a_}, {d_}, _n)") is not None or \
                            pmatch(sv_, f"piecewise_linear_sample({a_}, {d_}, _n, **_)") is not None:
                        ok_ = True
        if not ok_:
            whyc.append(f"line {s_.lineno}: column {bi['_i']} is `{U(vt)[:140]}`")
    obs.append(struct_ob("sampling-form", fqual(mi, csf) + "[columns]", bool(col_stores) and not whyc,
                         "every column of the conditional sample must be drawn by piecewise_linear_sample from that column's axis and density: "
                         + "; ".join(whyc[:2]), REL, csf.lineno, tier="F"))
    obs.extend(dtype_hazard_obligations(prog, "float-arithmetic", ['inference/approx/conditional.py']))
    from .common import call_order_obligations
    obs.extend(call_order_obligations(prog, "arguments-in-order", ['inference/approx/conditional.py']))
    from .common import identity_memo_obligations
    obs.extend(identity_memo_obligations(prog, "result-keyed-on-values", ['inference/approx/conditional.py']))

    meta = {
        "explanation": "Normal-form proofs: substituting trapezium_full into dh*T^2+(1-dh)*T-x gives 0 (uses sqrt(P)^2 = P); the "
                       "near-zero branch equals x at dh=0 and its dh-derivative equals the implicit-function derivative of the exact "
                       "transform; delta = (p1-p0)/(p1+p0) and p0/mean = 1-delta tie the table to that CDF; the un-normalised cell "
                       "weights must be a positive constant times 1/2(p1+p0)(x1-x0); sampling, normalisation and grid construction "
                       "are checked structurally.",
        "assumptions": ["numpy Generator.choice(p=w) selects index k with probability w[k]; scipy simpson integrates on the given grid"],
    }
    return obs, FLOORS, meta
