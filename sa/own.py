"""Engine E2 - ownership: may-alias(caller's array) x mutated-in-place.

Flow-insensitive inside a function except for the order of (re)definitions of a local
name: a name rebound to a fresh value stops aliasing from that statement on (the
repository's `x = x if isinstance(x, ndarray) else array(x)` idiom keeps the alias on
one arm, so the union is taken).  Views (reshape, .T, squeeze, slicing, asarray,
atleast_1d, ravel) keep aliasing; copies (.copy(), array(x), astype, flatten, arithmetic,
sort(x) the function, concatenate/append the functions) kill it.
"""
from __future__ import annotations
import ast

VIEW_METHODS = {"reshape", "squeeze", "ravel", "view", "transpose", "swapaxes"}
VIEW_ATTRS = {"T", "real", "flat"}
VIEW_FUNCS = {"asarray", "atleast_1d", "atleast_2d", "atleast_3d", "asanyarray", "ascontiguousarray", "asfortranarray",
              "asarray_chkfinite", "require", "squeeze", "reshape", "ravel", "transpose", "expand_dims", "broadcast_to",
              "swapaxes", "moveaxis", "rollaxis", "diagonal", "real", "imag", "flip", "flipud", "fliplr", "rot90", "split",
              "array_split", "hsplit", "vsplit", "nditer", "as_strided", "sliding_window_view"}
COPY_METHODS = {"copy", "astype", "flatten", "tolist", "sum", "mean", "std", "max", "min", "argsort",
                "argmax", "argmin", "cumsum", "dot", "all", "any", "nonzero", "clip"}
MUTATORS = {"sort", "resize", "fill", "put", "itemset", "partition", "setfield", "byteswap", "shuffle"}
MUTATOR_FUNCS = {"shuffle", "put", "place", "copyto", "fill_diagonal"}   # first argument mutated


def base_name(node):
    """Root Name id of an access path (x, x[..], x.attr ...), plus the path text."""
    n = node
    while isinstance(n, (ast.Subscript, ast.Attribute, ast.Starred)):
        n = n.value
    return n.id if isinstance(n, ast.Name) else None


class FnSummary:
    def __init__(self):
        self.returns_params = set()    # indices of parameters the return value may alias
        self.mutates_params = {}       # index -> list of (lineno, text) sinks


class Ownership:
    def __init__(self, prog):
        self.prog = prog
        self._summ = {}

    # ---------------------------------------------------------------- expression aliasing
    def roots(self, expr, amap, selfname=None, attr_alias=None, ci=None, mi=None, depth=3):
        """Set of alias roots (opaque labels) that expr may alias."""
        attr_alias = attr_alias or {}
        if expr is None:
            return set()
        if isinstance(expr, ast.Name):
            return set(amap.get(expr.id, ()))
        if isinstance(expr, ast.Attribute):
            if selfname and isinstance(expr.value, ast.Name) and expr.value.id == selfname:
                return set(attr_alias.get(expr.attr, ()))
            if expr.attr in VIEW_ATTRS:
                return self.roots(expr.value, amap, selfname, attr_alias, ci, mi, depth)
            return set()
        if isinstance(expr, ast.Subscript):
            # slices and row selections are views; fancy/boolean indexing copies, but we cannot tell
            # from syntax alone -> keep the alias only for slice / integer / tuple-with-slice forms
            r = self.roots(expr.value, amap, selfname, attr_alias, ci, mi, depth)
            if not r:
                return r
            out = set()
            for root in r:
                if isinstance(root, tuple) and root and root[0] == "elem":
                    out.add(root[1])          # element of a container that holds the alias
                elif _is_view_index(expr.slice) or self._slice_attr(expr.slice, selfname, ci):
                    out.add(root)             # slice / row selection of an array is a view
            return out
        if isinstance(expr, ast.IfExp):
            if static_false(expr.test, mi):
                return self.roots(expr.orelse, amap, selfname, attr_alias, ci, mi, depth)
            return (self.roots(expr.body, amap, selfname, attr_alias, ci, mi, depth)
                    | self.roots(expr.orelse, amap, selfname, attr_alias, ci, mi, depth))
        if isinstance(expr, ast.BoolOp):
            s = set()
            for v in expr.values:
                s |= self.roots(v, amap, selfname, attr_alias, ci, mi, depth)
            return s
        if isinstance(expr, ast.NamedExpr):
            return self.roots(expr.value, amap, selfname, attr_alias, ci, mi, depth)
        if isinstance(expr, (ast.List, ast.Tuple)):
            s = set()
            for e in expr.elts:
                for r in self.roots(e, amap, selfname, attr_alias, ci, mi, depth):
                    s.add(("elem", r) if not (isinstance(r, tuple) and r and r[0] == "elem") else r)
            return s
        if isinstance(expr, ast.Call):
            f = expr.func
            if isinstance(f, ast.Attribute):
                if f.attr in VIEW_METHODS:
                    return self.roots(f.value, amap, selfname, attr_alias, ci, mi, depth)
                if f.attr == "astype" and any(k.arg == "copy" and not (isinstance(k.value, ast.Constant) and k.value.value is True)
                                               for k in expr.keywords):
                    # astype(.., copy=False) (or a computed flag) hands back the array itself when the dtype already matches
                    return self.roots(f.value, amap, selfname, attr_alias, ci, mi, depth)
                if f.attr in COPY_METHODS:
                    return set()
                # self.helper(x): use the summary
                if selfname and isinstance(f.value, ast.Name) and f.value.id == selfname and ci is not None and depth > 0:
                    c, fn = self.prog.find_method(ci, f.attr)
                    if fn is not None:
                        return self._via_summary(c.module, c, fn, expr, amap, selfname, attr_alias, ci, mi, depth)
                return set()
            if isinstance(f, ast.Name):
                q = mi.imports.get(f.id) if mi is not None else None
                short = (q or f.id).split(".")[-1]
                if short in VIEW_FUNCS and expr.args:
                    return self.roots(expr.args[0], amap, selfname, attr_alias, ci, mi, depth)
                if short == "array" and expr.args:
                    # numpy.array copies unless copy=False is passed
                    for k in expr.keywords:
                        if k.arg == "copy" and not (isinstance(k.value, ast.Constant) and k.value.value is True):
                            # copy=False, copy=None ("only if needed") or a computed flag: the argument itself may come back
                            return self.roots(expr.args[0], amap, selfname, attr_alias, ci, mi, depth)
                    return set()
                if mi is not None and f.id in mi.functions and depth > 0:
                    return self._via_summary(mi, None, mi.functions[f.id], expr, amap, selfname, attr_alias, ci, mi, depth)
                return set()
        return set()

    def _slice_attr(self, sl, selfname, ci):
        """`x[self.s]` where every assignment of self.s in the class hierarchy is a `slice(...)` object: a view."""
        if not (selfname and ci is not None and isinstance(sl, ast.Attribute) and isinstance(sl.value, ast.Name) and sl.value.id == selfname):
            return False
        sites = self.prog.self_assignments(ci, sl.attr)
        return bool(sites) and all(isinstance(v, ast.Call) and isinstance(v.func, ast.Name) and v.func.id == "slice" for _, _, _, v in sites)

    def _via_summary(self, fmi, fci, fn, call, amap, selfname, attr_alias, ci, mi, depth):
        summ = self.summary(fmi, fci, fn, depth - 1)
        params = [a.arg for a in fn.args.args]
        is_static = any(ast.unparse(d) == "staticmethod" for d in fn.decorator_list)
        if fci is not None and not is_static:
            params = params[1:]
        out = set()
        for i in summ.returns_params:
            if i < len(call.args):
                out |= self.roots(call.args[i], amap, selfname, attr_alias, ci, mi, depth)
            else:
                for k in call.keywords:
                    if i < len(params) and k.arg == params[i]:
                        out |= self.roots(k.value, amap, selfname, attr_alias, ci, mi, depth)
        return out

    # ---------------------------------------------------------------- function summaries
    def summary(self, mi, ci, fn, depth=2):
        key = (mi.relpath, ci.name if ci else None, fn.name, id(fn))
        if key in self._summ:
            return self._summ[key]
        s = FnSummary()
        self._summ[key] = s
        params = [a.arg for a in fn.args.args]
        is_static = any(ast.unparse(d) == "staticmethod" for d in fn.decorator_list)
        selfname = None
        if ci is not None and not is_static and params:
            selfname = params[0]
            params = params[1:]
        amap = {p: {("param", i)} for i, p in enumerate(params)}
        sinks = []
        self.walk(fn.body, amap, selfname, {}, ci, mi, sinks, depth, returns=s.returns_params)
        for root, line, text in sinks:
            r = root
            while isinstance(r, tuple) and r and r[0] == "elem":
                r = r[1]
            if isinstance(r, tuple) and r[0] == "param":
                s.mutates_params.setdefault(r[1], []).append((line, text))
        return s

    # ---------------------------------------------------------------- statement walk
    def walk(self, stmts, amap, selfname, attr_alias, ci, mi, sinks, depth=2, returns=None, attr_out=None):
        """Propagates aliases through a block (both arms of branches), records sinks as
        (root, lineno, text).  attr_out collects `self.X = expr` alias roots."""
        for st in stmts:
            if isinstance(st, ast.Assign):
                r = self.roots(st.value, amap, selfname, attr_alias, ci, mi, depth)
                for t in st.targets:
                    self._bind(t, r, st.value, amap, selfname, attr_alias, ci, mi, sinks, depth, attr_out)
            elif isinstance(st, ast.AnnAssign) and st.value is not None:
                r = self.roots(st.value, amap, selfname, attr_alias, ci, mi, depth)
                self._bind(st.target, r, st.value, amap, selfname, attr_alias, ci, mi, sinks, depth, attr_out)
            elif isinstance(st, ast.AugAssign):
                # in-place for ndarrays: x += v mutates the object x refers to
                r = self.roots(st.target, amap, selfname, attr_alias, ci, mi, depth)
                for root in r:
                    sinks.append((root, st.lineno, ast.unparse(st)))
            elif isinstance(st, ast.Expr):
                self._calls(st.value, amap, selfname, attr_alias, ci, mi, sinks, depth)
            elif isinstance(st, ast.Return):
                if st.value is not None:
                    self._calls(st.value, amap, selfname, attr_alias, ci, mi, sinks, depth)
                    if returns is not None:
                        vals = st.value.elts if isinstance(st.value, ast.Tuple) else [st.value]
                        for v in vals:
                            for root in self.roots(v, amap, selfname, attr_alias, ci, mi, depth):
                                rr = root
                                while isinstance(rr, tuple) and rr[0] == "elem":
                                    rr = rr[1]
                                if isinstance(rr, tuple) and rr[0] == "param":
                                    returns.add(rr[1])
            elif isinstance(st, ast.If):
                self._calls(st.test, amap, selfname, attr_alias, ci, mi, sinks, depth)
                # a test that is statically decided (`x.dtype is float64` is always False, its negation always True) takes
                # one arm only - exactly like the conditional-expression form of the same idiom
                truth = static_truth(st.test, mi)
                if truth is True:
                    self.walk(st.body, amap, selfname, attr_alias, ci, mi, sinks, depth, returns, attr_out)
                    continue
                if truth is False:
                    self.walk(st.orelse, amap, selfname, attr_alias, ci, mi, sinks, depth, returns, attr_out)
                    continue
                a1 = {k: set(v) for k, v in amap.items()}
                a2 = {k: set(v) for k, v in amap.items()}
                self.walk(st.body, a1, selfname, attr_alias, ci, mi, sinks, depth, returns, attr_out)
                self.walk(st.orelse, a2, selfname, attr_alias, ci, mi, sinks, depth, returns, attr_out)
                for k in set(a1) | set(a2):
                    amap[k] = a1.get(k, set()) | a2.get(k, set())
            elif isinstance(st, (ast.For, ast.While)):
                if isinstance(st, ast.For):
                    r = self.roots(st.iter, amap, selfname, attr_alias, ci, mi, depth)
                    # iterating an array yields views of its rows
                    for t in ast.walk(st.target):
                        if isinstance(t, ast.Name):
                            amap[t.id] = set(r)
                    self._calls(st.iter, amap, selfname, attr_alias, ci, mi, sinks, depth)
                for _ in range(2):     # loop-carried aliases
                    self.walk(st.body, amap, selfname, attr_alias, ci, mi, sinks, depth, returns, attr_out)
                self.walk(st.orelse, amap, selfname, attr_alias, ci, mi, sinks, depth, returns, attr_out)
            elif isinstance(st, ast.Try):
                self.walk(st.body, amap, selfname, attr_alias, ci, mi, sinks, depth, returns, attr_out)
                for h in st.handlers:
                    self.walk(h.body, amap, selfname, attr_alias, ci, mi, sinks, depth, returns, attr_out)
                self.walk(st.orelse + st.finalbody, amap, selfname, attr_alias, ci, mi, sinks, depth, returns, attr_out)
            elif isinstance(st, ast.With):
                self.walk(st.body, amap, selfname, attr_alias, ci, mi, sinks, depth, returns, attr_out)
        # sinks may be recorded twice by the loop re-walk; de-duplicate
        seen, uniq = set(), []
        for s in sinks:
            if s not in seen:
                seen.add(s)
                uniq.append(s)
        sinks[:] = uniq

    def _bind(self, t, r, value, amap, selfname, attr_alias, ci, mi, sinks, depth, attr_out):
        self._calls(value, amap, selfname, attr_alias, ci, mi, sinks, depth)
        if isinstance(t, ast.Name):
            amap[t.id] = set(r)
        elif isinstance(t, (ast.Tuple, ast.List)):
            vals = value.elts if isinstance(value, (ast.Tuple, ast.List)) and len(value.elts) == len(t.elts) else None
            for k, e in enumerate(t.elts):
                rr = self.roots(vals[k], amap, selfname, attr_alias, ci, mi, depth) if vals else set(r)
                self._bind(e, rr, ast.Constant(None), amap, selfname, attr_alias, ci, mi, sinks, depth, attr_out)
        elif isinstance(t, ast.Attribute):
            if selfname and isinstance(t.value, ast.Name) and t.value.id == selfname:
                attr_alias[t.attr] = set(r)
                if attr_out is not None:
                    attr_out.setdefault(t.attr, set()).update(r)
        elif isinstance(t, ast.Subscript):
            # element / slice store: mutates the object the base refers to
            for root in self.roots(t.value, amap, selfname, attr_alias, ci, mi, depth):
                if isinstance(root, tuple) and root and root[0] == "elem":
                    # storing into a fresh container that merely holds the alias: not a mutation of the alias
                    continue
                sinks.append((root, t.lineno, ast.unparse(t) + " = ..."))

    def _calls(self, expr, amap, selfname, attr_alias, ci, mi, sinks, depth):
        for call in [n for n in ast.walk(expr) if isinstance(n, ast.Call)]:
            f = call.func
            if isinstance(f, ast.Attribute) and f.attr in MUTATORS:
                q = mi.imports.get(base_name(f.value) or "") if mi is not None else None
                if f.attr == "shuffle" or q is None or not (q.startswith("numpy") or q.startswith("random")):
                    target = f.value if f.attr != "shuffle" else (call.args[0] if call.args else None)
                    if f.attr == "shuffle":
                        target = call.args[0] if call.args else None
                    for root in self.roots(target, amap, selfname, attr_alias, ci, mi, depth):
                        if isinstance(root, tuple) and root and root[0] == "elem":
                            continue
                        sinks.append((root, call.lineno, ast.unparse(call)))
            for k in call.keywords:
                if k.arg == "out":
                    for root in self.roots(k.value, amap, selfname, attr_alias, ci, mi, depth):
                        sinks.append((root, call.lineno, ast.unparse(call)))
                elif k.arg in OVERWRITE_KW and isinstance(k.value, ast.Constant) and k.value.value is True \
                        and len(call.args) > OVERWRITE_KW[k.arg]:
                    # scipy / numpy "you may destroy my input" flags: honoured whenever the argument's memory layout allows it
                    for root in self.roots(call.args[OVERWRITE_KW[k.arg]], amap, selfname, attr_alias, ci, mi, depth):
                        sinks.append((root, call.lineno, ast.unparse(call)))
            # callee that mutates a parameter in place
            callees = []
            if isinstance(f, ast.Attribute) and selfname and isinstance(f.value, ast.Name) \
                    and f.value.id == selfname and ci is not None:
                c, fn = self.prog.find_method(ci, f.attr)
                if fn is not None:
                    callees.append((c.module, c, fn))
                else:
                    # bound-method slot: every method the attribute may hold
                    for cc, m in self.prog.slot_targets(ci, f.attr)[0]:
                        callees.append((cc.module, cc, m))
            elif isinstance(f, ast.Name) and mi is not None and f.id in mi.functions:
                callees.append((mi, None, mi.functions[f.id]))
            for callee in callees:
                if depth <= 0:
                    break
                summ = self.summary(*callee, depth - 1)
                for i, where in summ.mutates_params.items():
                    if i < len(call.args):
                        for root in self.roots(call.args[i], amap, selfname, attr_alias, ci, mi, depth):
                            sinks.append((root, call.lineno,
                                          f"{ast.unparse(call)} -> {callee[2].name} mutates its parameter #{i} ({where[0][1]})"))


NUMPY_SCALAR_TYPES = {"float64", "float32", "float16", "int64", "int32", "int16", "int8", "uint8", "bool_",
                      "complex128", "float_", "int_"}


def static_false(test, mi):
    """`x.dtype is <numpy scalar type>`: a dtype *instance* is never identical to a scalar type *class*, so the
    comparison is False for every input (with `==` it would be a real test).  The repository relies on this
    in HamiltonianChain.__init__, where it makes the conversion arm - a copy - unconditional."""
    if isinstance(test, ast.Compare) and len(test.ops) == 1 and isinstance(test.ops[0], ast.Is):
        l, r = test.left, test.comparators[0]
        if isinstance(l, ast.Attribute) and l.attr == "dtype" and isinstance(r, ast.Name):
            q = mi.imports.get(r.id) if mi is not None else None
            return (q or "").startswith("numpy.") and r.id in NUMPY_SCALAR_TYPES
    return False


def static_truth(test, mi):
    """True / False when the test is decided for every input, else None."""
    if static_false(test, mi):
        return False
    if isinstance(test, ast.UnaryOp) and isinstance(test.op, ast.Not):
        t = static_truth(test.operand, mi)
        return None if t is None else not t
    if isinstance(test, ast.Compare) and len(test.ops) == 1 and isinstance(test.ops[0], ast.IsNot):
        flipped = ast.Compare(left=test.left, ops=[ast.Is()], comparators=test.comparators)
        if static_false(flipped, mi):
            return True
    return None


SCALAR_ANN = {"float", "int", "bool", "str", "callable", "Callable"}


def arraylike_params(fn):
    """Names of parameters that may be arrays owned by the caller (annotation / default based)."""
    args = fn.args.args[1:] if fn.args.args and fn.args.args[0].arg in ("self", "cls") else fn.args.args
    defaults = [None] * (len(fn.args.args) - len(fn.args.defaults)) + list(fn.args.defaults)
    dmap = {a.arg: d for a, d in zip(fn.args.args, defaults)}
    out = []
    for a in args + fn.args.kwonlyargs:
        ann = ast.unparse(a.annotation) if a.annotation is not None else None
        if ann in SCALAR_ANN:
            continue
        d = dmap.get(a.arg)
        if ann is None and isinstance(d, ast.Constant) and isinstance(d.value, (bool, int, float, str)):
            continue
        out.append(a.arg)
    return out


def root_param(root):
    while isinstance(root, tuple) and root and root[0] == "elem":
        root = root[1]
    if isinstance(root, tuple) and root and root[0] in ("ctor", "param"):
        return root[1]
    return None


def _is_view_index(sl):
    elts = sl.elts if isinstance(sl, ast.Tuple) else [sl]
    for e in elts:
        if isinstance(e, ast.Slice):
            continue
        if isinstance(e, ast.Constant) and (isinstance(e.value, int) or e.value is None):
            continue
        if isinstance(e, ast.UnaryOp) and isinstance(e.operand, ast.Constant):
            continue
        if isinstance(e, ast.Name):
            continue          # an integer loop index selects a row view; kept (may-alias)
        return False
    return True


def class_attr_aliases(own: Ownership, prog, ci, ctor="__init__"):
    """For the constructor of ci: attribute -> alias roots (('param', i) of the ctor)."""
    c, fn = prog.find_method(ci, ctor)
    if fn is None:
        return {}, None
    params = [a.arg for a in fn.args.args][1:]
    selfname = fn.args.args[0].arg
    amap = {p: {("ctor", p)} for p in params}
    attr_out, sinks = {}, []
    own.walk(fn.body, amap, selfname, {}, ci, c.module, sinks, 3, attr_out=attr_out)
    return attr_out, (c, fn, params, sinks)


def class_mutation_sinks(own: Ownership, prog, ci, attr_alias, skip=("__init__",)):
    """In-place mutation sinks, anywhere in the methods visible from ci, on objects that
    the given attributes may alias.  Returns list of (root, class, method, lineno, text)."""
    out = []
    seen = set()
    for c in prog.mro(ci):
        for mname, fn in c.methods.items():
            if mname in seen:
                continue
            seen.add(mname)
            if not fn.args.args:
                continue
            if any(ast.unparse(d) in ("staticmethod", "classmethod") for d in fn.decorator_list):
                continue
            selfname = fn.args.args[0].arg
            params = [a.arg for a in fn.args.args][1:]
            amap = {p: set() for p in params}
            sinks = []
            aa = {k: set(v) for k, v in attr_alias.items()}
            own.walk(fn.body, amap, selfname, aa, ci, c.module, sinks, 3)
            for root, line, text in sinks:
                out.append((root, c, fn, line, text))
    return out


def param_mutations(own: Ownership, ci, fn, mi=None):
    """[(parameter name, lineno, text)] - in-place updates of a caller-owned argument (directly or through a view / alias)."""
    mi = mi or (ci.module if ci is not None else None)
    summ = own.summary(mi, ci, fn)
    params = [a.arg for a in fn.args.args]
    is_static = any(ast.unparse(d) == "staticmethod" for d in fn.decorator_list)
    if ci is not None and not is_static and params:
        params = params[1:]
    out = []
    for i, hits in sorted(summ.mutates_params.items()):
        for line, text in hits:
            out.append((params[i] if i < len(params) else f"#{i}", line, text))
    return out


# ------------------------------------------------------------------------------------------------ stored-state sinks
LIST_MUTATORS = {"append", "extend", "insert", "pop", "remove", "clear", "reverse", "sort", "update", "setdefault", "popitem",
                 "resize", "fill", "put", "itemset", "partition", "byteswap", "setfield", "add", "discard"}
ARG_MUTATOR_FUNCS = {"shuffle", "put", "place", "copyto", "fill_diagonal", "putmask", "put_along_axis"}
# keyword -> position of the argument the callee is allowed to overwrite (scipy.linalg solve / solve_triangular / cho_solve / cholesky /
# inv / lu_factor, numpy median / percentile / quantile)
OVERWRITE_KW = {"overwrite_a": 0, "overwrite_b": 1, "overwrite_x": 0, "overwrite_ab": 0, "overwrite_input": 0}


def _state_path(e, alias):
    """Access path of the stored object `e` may name, rooted at an object in `alias` (a receiver / parameter or something
    reached from one): views, slices and element selections keep the path, anything else (calls that copy, arithmetic)
    loses it.  Returns a set of path strings like `self.sample` or `priors[].variables`."""
    if isinstance(e, ast.Name):
        return set(alias.get(e.id, ()))
    if isinstance(e, ast.Attribute):
        if e.attr in VIEW_ATTRS:
            return _state_path(e.value, alias)
        return {f"{b}.{e.attr}" for b in _state_path(e.value, alias)}
    if isinstance(e, ast.Subscript):
        base = _state_path(e.value, alias)
        if isinstance(e.slice, ast.Slice) or (isinstance(e.slice, ast.Tuple) and any(isinstance(x, ast.Slice) for x in e.slice.elts)):
            return base                                  # a slice of an array / list view... (list slices copy: see below)
        return {b if b.endswith("[]") else b + "[]" for b in base}
    if isinstance(e, ast.IfExp):
        return _state_path(e.body, alias) | _state_path(e.orelse, alias)
    if isinstance(e, ast.BoolOp):
        out = set()
        for v in e.values:
            out |= _state_path(v, alias)
        return out
    if isinstance(e, ast.Call):
        f = e.func
        nm = f.attr if isinstance(f, ast.Attribute) else f.id if isinstance(f, ast.Name) else None
        if isinstance(f, ast.Attribute) and nm in VIEW_METHODS:
            return _state_path(f.value, alias)
        if isinstance(f, ast.Attribute) and nm == "astype" and any(k.arg == "copy" and not (isinstance(k.value, ast.Constant) and k.value.value is True)
                                                                    for k in e.keywords):
            return _state_path(f.value, alias)
        ms = alias.get("@methods")
        if ms and isinstance(f, ast.Attribute) and isinstance(f.value, ast.Name) and alias.get(f.value.id) == {"self"} \
                and nm in ms[0] and ms[1] < 3:
            return _method_return_paths(ms[0][nm], ms[0], ms[1] + 1, alias.get("@components"))
        if isinstance(f, ast.Attribute) and nm in ("get", "pop", "setdefault") and _state_path(f.value, alias):
            return _elem(_state_path(f.value, alias))      # an entry of a stored dict / list
        comps = alias.get("@components")
        if comps and isinstance(f, ast.Attribute) and nm in comps[0] and comps[1] < 2 \
                and not (isinstance(f.value, ast.Name) and alias.get(f.value.id) == {"self"}):
            recv = _state_path(f.value, alias)
            if recv:
                # a method of a stored component (self.mean.gradient(..), self.cov.covariance_and_gradients(..)): what any class
                # that defines the method may hand back - an object it keeps, or (a view of) one of its arguments
                out = set()
                for cfn in comps[0][nm]:
                    n_par = len(cfn.args.args) - 1
                    n_req = n_par - len(cfn.args.defaults)
                    if cfn.args.vararg is None and not (n_req <= len(e.args) + len(e.keywords) and len(e.args) <= n_par):
                        continue                      # not callable with these arguments: another class's method of the same name
                    for p_ in _callee_return_paths(cfn, comps[0], comps[1] + 1):
                        if p_.startswith("@self"):
                            out |= {b + p_[5:] for b in recv}
                        elif p_.startswith("@p"):
                            head = p_.split(".")[0].split("[")[0]
                            i, rest = int(head[2:]), p_[len(head):]
                            params = [a.arg for a in cfn.args.args][1:]
                            arg = e.args[i] if i < len(e.args) else next((k.value for k in e.keywords if i < len(params) and k.arg == params[i]), None)
                            if arg is not None and not any(isinstance(a, ast.Starred) for a in e.args):
                                out |= {a + rest for a in _state_path(arg, alias)}
                if out:
                    return out
        if nm in VIEW_FUNCS | {"asfortranarray", "asarray_chkfinite", "atleast_3d", "require"} and e.args \
                and not (isinstance(f, ast.Attribute) and not isinstance(f.value, ast.Name)):
            return _state_path(e.args[0], alias)
        if nm == "array" and e.args and any(k.arg == "copy" and not (isinstance(k.value, ast.Constant) and k.value.value is True) for k in e.keywords):
            return _state_path(e.args[0], alias)
    return set()


def _elem(paths):
    return {b if b.endswith("[]") else b + "[]" for b in paths}


_CALLEE_CACHE = {}


def _callee_return_paths(fn, components, depth):
    """What a component method may return, as paths rooted at `@self` (an object the component keeps) or `@p<i>` (its i-th
    argument after the receiver): views, slices, elements; a copy or any arithmetic loses the path."""
    key = (id(fn), depth)
    if key in _CALLEE_CACHE:
        return _CALLEE_CACHE[key]
    _CALLEE_CACHE[key] = set()
    params = [a.arg for a in fn.args.args]
    if not params:
        return set()
    roots = {params[0]: "@self"}
    for i, p_ in enumerate(params[1:]):
        roots[p_] = f"@p{i}"
    alias = _state_aliases(fn, roots, None, 0, components=(components, depth))
    alias[params[0]] = {"@self"}
    out = set()
    for n in ast.walk(fn):
        if isinstance(n, ast.Return) and n.value is not None:
            vals = n.value.elts if isinstance(n.value, ast.Tuple) else [n.value]
            for v in vals:
                ps = _state_path(v, alias)
                out |= ps
    _CALLEE_CACHE[key] = out
    return out


def effective_function(mi, fn):
    """The function that runs when `fn` is called: for a method under a decorator defined in the same module whose body returns a
    nested function, that nested function (a memoising / logging wrapper); otherwise fn itself."""
    for d in fn.decorator_list:
        nm = d.id if isinstance(d, ast.Name) else d.func.id if isinstance(d, ast.Call) and isinstance(d.func, ast.Name) else None
        dec = mi.functions.get(nm) if nm and mi is not None else None
        if dec is None:
            continue
        inner = {n.name: n for n in dec.body if isinstance(n, ast.FunctionDef)}
        for n in ast.walk(dec):
            if isinstance(n, ast.Return) and isinstance(n.value, ast.Name) and n.value.id in inner:
                return inner[n.value.id]
    return fn


def component_table(prog, exclude=()):
    """method name -> [FunctionDef, ...] over every class of the program outside `exclude` (the receiver's own hierarchy)."""
    tab = {}
    ex = {id(c) for c in exclude}
    for mi in prog.modules.values():
        for ci in mi.classes.values():
            if id(ci) in ex:
                continue
            for m, fn in ci.methods.items():
                if m.startswith("__") and m != "__call__":
                    continue
                if fn.args.args and not any(ast.unparse(d) in ("staticmethod", "classmethod", "abstractmethod") for d in fn.decorator_list):
                    tab.setdefault(m, []).append(effective_function(mi, fn))
    return tab


def _state_aliases(fn, roots, methods=None, _depth=0, components=None):
    """name -> set of access paths of stored objects the local name may be bound to (flow-insensitive fix-point)."""
    alias = {n: {lab} for n, lab in roots.items()}
    if methods:
        alias["@methods"] = (methods, _depth)
    if components:
        alias["@components"] = components if isinstance(components, tuple) else (components, 0)
    changed = True
    while changed:
        changed = False
        for st in ast.walk(fn):
            pairs = []
            if isinstance(st, ast.Assign):
                for t in st.targets:
                    if isinstance(t, ast.Name):
                        pairs.append((t.id, _state_path(st.value, alias)))
                    elif isinstance(t, (ast.Tuple, ast.List)) and isinstance(st.value, (ast.Tuple, ast.List)) and len(t.elts) == len(st.value.elts):
                        for a, b in zip(t.elts, st.value.elts):
                            if isinstance(a, ast.Name):
                                pairs.append((a.id, _state_path(b, alias)))
            elif isinstance(st, ast.AnnAssign) and st.value is not None and isinstance(st.target, ast.Name):
                pairs.append((st.target.id, _state_path(st.value, alias)))
            elif isinstance(st, ast.NamedExpr) and isinstance(st.target, ast.Name):
                pairs.append((st.target.id, _state_path(st.value, alias)))
            elif isinstance(st, (ast.For, ast.comprehension)):
                it = st.iter
                # zip / enumerate / reversed / sorted(copy) - element objects of the iterated containers
                srcs = [it]
                if isinstance(it, ast.Call) and isinstance(it.func, ast.Name) and it.func.id in ("zip", "enumerate", "reversed", "sorted", "list", "tuple", "iter"):
                    srcs = list(it.args)
                tg = st.target
                tgs = tg.elts if isinstance(tg, (ast.Tuple, ast.List)) else [tg]
                if isinstance(it, ast.Call) and isinstance(it.func, ast.Name) and it.func.id == "enumerate":
                    tgs = tgs[1:] if len(tgs) > 1 else []
                if len(srcs) == len(tgs) or len(srcs) == 1:
                    for k, x in enumerate(tgs):
                        src = srcs[k] if len(srcs) == len(tgs) else srcs[0]
                        if isinstance(x, ast.Name):
                            pairs.append((x.id, {b if b.endswith("[]") else b + "[]" for b in _state_path(src, alias)}))
            if isinstance(st, ast.Assign) and not isinstance(st.value, (ast.Tuple, ast.List)):
                # unpacking a stored tuple / list / the rows of a stored array: every target names an element of it
                for t in st.targets:
                    if isinstance(t, (ast.Tuple, ast.List)):
                        src = _elem(_state_path(st.value, alias))
                        for a in t.elts:
                            a = a.value if isinstance(a, ast.Starred) else a
                            if isinstance(a, ast.Name) and src:
                                pairs.append((a.id, src))
            for name, paths in pairs:
                if name in roots:
                    continue
                if paths - alias.get(name, set()):
                    alias.setdefault(name, set()).update(paths)
                    changed = True
    return alias


def _method_return_paths(fn, methods, depth, components=None):
    """Access paths (rooted at the receiver) of the stored objects a method may hand out as its result."""
    if not fn.args.args:
        return set()
    me = fn.args.args[0].arg
    alias = _state_aliases(fn, {me: "self"}, methods, depth, components=components)
    out = set()
    for n in ast.walk(fn):
        if isinstance(n, ast.Return) and n.value is not None:
            vals = n.value.elts if isinstance(n.value, ast.Tuple) else [n.value]
            for v in vals:
                out |= _state_path(v, alias)
    return out


def state_sinks(fn, roots, own_roots=("self",), methods=None, components=None):
    """In-place updates, inside `fn`, of objects stored in (or reached from) the objects named in `roots` (name -> label), directly
    or through local aliases: [(path, lineno, text)].  Paths are like `self.sample`, `priors[].variables`.
    Flow-insensitive over aliases (a name that ever aliased a stored object counts), which is the safe direction.
    `methods` (name -> FunctionDef of the receiver's class) lets `self.m(..)` stand for the stored objects m returns."""
    alias = _state_aliases(fn, roots, methods, components=components)
    out = []

    def hit(e, st, why):
        for p_ in sorted(_state_path(e, alias)):
            if p_ not in roots.values():
                out.append((p_, st.lineno, ast.unparse(st)[:160]))
    for st in ast.walk(fn):
        if isinstance(st, ast.AugAssign):
            t = st.target
            if isinstance(t, ast.Subscript):
                hit(t.value, st, "item update")
            elif isinstance(t, ast.Name):
                hit(t, st, "in-place operator")
        elif isinstance(st, ast.Assign):
            for t in st.targets:
                for x in (t.elts if isinstance(t, (ast.Tuple, ast.List)) else [t]):
                    if isinstance(x, ast.Subscript) and (not isinstance(x.value, ast.Attribute) or not any(
                            p_.split(".")[0].split("[")[0] in own_roots for p_ in _state_path(x.value, alias))):
                        hit(x.value, st, "item store")
        elif isinstance(st, ast.Delete):
            for t in st.targets:
                if isinstance(t, ast.Subscript) and not isinstance(t.value, ast.Attribute):
                    hit(t.value, st, "item delete")
        elif isinstance(st, ast.Expr) and isinstance(st.value, ast.Call) or isinstance(st, ast.Call):
            call = st.value if isinstance(st, ast.Expr) else st
            f = call.func
            owner = st if isinstance(st, ast.Expr) else None
            if owner is None:
                continue
            if isinstance(f, ast.Attribute) and f.attr in LIST_MUTATORS:
                if isinstance(f.value, ast.Name) or not any(p_.split(".")[0].split("[")[0] in own_roots for p_ in _state_path(f.value, alias)):
                    hit(f.value, owner, "mutating method")
            nm = f.attr if isinstance(f, ast.Attribute) else f.id if isinstance(f, ast.Name) else None
            if nm in ARG_MUTATOR_FUNCS and call.args:
                hit(call.args[0], owner, "mutating function")
            for k in call.keywords:
                if k.arg == "out":
                    hit(k.value, owner, "out= argument")
    # "you may destroy my input" flags and out= of calls nested anywhere in a statement
    for st in ast.walk(fn):
        if not isinstance(st, ast.stmt) or isinstance(st, (ast.FunctionDef, ast.ClassDef, ast.For, ast.While, ast.If, ast.With, ast.Try)):
            continue
        for call in ast.walk(st):
            if not isinstance(call, ast.Call):
                continue
            for k in call.keywords:
                if k.arg in OVERWRITE_KW and isinstance(k.value, ast.Constant) and k.value.value is True and len(call.args) > OVERWRITE_KW[k.arg]:
                    hit(call.args[OVERWRITE_KW[k.arg]], st, "overwrite flag")
                elif k.arg == "out" and not isinstance(st, ast.Expr):
                    hit(k.value, st, "out= argument")
    # only updates reached through a local alias or an element are reported here: a direct `self.x[...] = v` / `self.x.sort()` is
    # the class managing its own attribute, which the caller of this helper may or may not want - so report those separately
    return sorted(set(out))
