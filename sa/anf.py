"""Engine C - scalar algebraic normal form.

Rational functions over opaque atoms with exact Fraction coefficients; a small,
explicit table of function identities; a linear reduction operator; symbolic
differentiation.  Equality is decided by cross-multiplication and polynomial
identity - no search, no solver, nothing is executed.

Canonicalisation rules (each is an identity on the domain where the code is defined):
  R1  exp(a+b) = exp(a)exp(b);  exp(c*m) = exp(m)^c  (c rational literal)
  R2  exp(c*log P) = P^c
  R3  log(P/Q) = log P - log Q; log(c*prod a_i^e_i) = log c + sum e_i log a_i (arguments positive)
  R4  log(exp X) = X
  R5  sqrt(x) = x^(1/2);  (c*m)^q = c^q m^q  (positive quantities)
  R6  rational bases with fractional exponents are kept as prime-power atoms and fold
      back into the coefficient when the exponent becomes integral
  R7  P^(n+f) = P^n * P^f  (multi-term P, f in (0,1)): integral parts are expanded
  R8  log1p(a)=log(1+a); logaddexp(a,b)=log(exp a+exp b)
  R9  erfcx(x)=exp(x^2)(1-erf x); erf(-x)=-erf(x); tanh(-x)=-tanh(x); cos(-x)=cos(x)
  R10 abs(x)^(2k) = x^(2k)
  R11 Sum is linear; scalar atoms factor out; Sum(1) = N
"""
from __future__ import annotations
from fractions import Fraction
import math

F0, F1 = Fraction(0), Fraction(1)


class Unsupported(Exception):
    """An expression outside the modelled algebra (never reported as a violation)."""


# ------------------------------------------------------------------ registry
class Registry:
    """Maps argument expressions to small integer ids modulo decided equality."""

    def __init__(self):
        self.items = []       # list of tuples of R
        self.index = {}       # structural key -> id

    def reg(self, *args):
        key = tuple(a.skey() for a in args)
        if key in self.index:
            return self.index[key]
        for i, old in enumerate(self.items):
            if len(old) == len(args) and all(a.eq(b) for a, b in zip(old, args)):
                self.index[key] = i
                return i
        self.items.append(tuple(args))
        self.index[key] = len(self.items) - 1
        return len(self.items) - 1

    def get(self, i):
        return self.items[i]


REG = Registry()


def reset():
    global REG
    REG = Registry()


# ------------------------------------------------------------------ atoms
# ('sym', name) ('const', name) ('prime', p) ('exp', id) ('log', id) ('logp', p)
# ('poly', id) ('fn', name, id) ('sum', id, tag)

def atom_str(a):
    k = a[0]
    if k in ("sym", "const"):
        return a[1]
    if k == "prime":
        return str(a[1])
    if k == "logp":
        return f"log({a[1]})"
    if k == "exp":
        return f"exp({REG.get(a[1])[0]})"
    if k == "log":
        return f"log({REG.get(a[1])[0]})"
    if k == "poly":
        return f"({REG.get(a[1])[0]})"
    if k == "fn":
        return f"{a[1]}({', '.join(str(x) for x in REG.get(a[2]))})"
    if k == "sum":
        return f"Sum{a[2]}[{REG.get(a[1])[0]}]"
    return repr(a)


def _akey(a):
    return tuple(str(x) for x in a)


# ------------------------------------------------------------------ monomials / polynomials
def mono_mul(m1, m2):
    if not m1:
        return m2
    if not m2:
        return m1
    d = dict(m1)
    for a, e in m2:
        d[a] = d.get(a, F0) + e
    return tuple(sorted(((a, e) for a, e in d.items() if e != 0), key=lambda t: _akey(t[0])))


def mono_pow(m, q):
    return tuple((a, e * q) for a, e in m if e * q != 0)


def poly_add(p1, p2, s=F1):
    d = dict(p1)
    for m, c in p2.items():
        v = d.get(m, F0) + s * c
        if v == 0:
            d.pop(m, None)
        else:
            d[m] = v
    return d


def poly_mul(p1, p2):
    d = {}
    for m1, c1 in p1.items():
        for m2, c2 in p2.items():
            m = mono_mul(m1, m2)
            v = d.get(m, F0) + c1 * c2
            if v == 0:
                d.pop(m, None)
            else:
                d[m] = v
    return d


def _factorint(n):
    n = abs(int(n))
    out = {}
    p = 2
    while p * p <= n:
        while n % p == 0:
            out[p] = out.get(p, 0) + 1
            n //= p
        p += 1
    if n > 1:
        out[n] = out.get(n, 0) + 1
    return out


class R:
    """num/den with polynomials {monomial: Fraction}; den never empty."""
    __slots__ = ("num", "den", "_sk")

    def __init__(self, num, den=None, _norm=True):
        self.num = num
        self.den = den if den is not None else {(): F1}
        self._sk = None
        if not self.den:
            raise Unsupported("division by zero polynomial")
        if _norm:
            self._normalise()

    # -------------------------------------------------------------- construction
    @staticmethod
    def const(c):
        c = Fraction(c)
        return R({(): c} if c != 0 else {}, None, False)

    @staticmethod
    def atom(a, e=F1):
        return R({((a, Fraction(e)),): F1})

    @staticmethod
    def sym(name):
        return R.atom(("sym", name))

    def _normalise(self):
        guard = 0
        while True:
            guard += 1
            if guard > 60:
                raise Unsupported("normalisation did not terminate")
            # (b) a monomial denominator folds into the numerator (negative exponents)
            if len(self.den) == 1:
                (m, c), = self.den.items()
                if m or c != 1:
                    inv = mono_pow(m, Fraction(-1))
                    self.num = {mono_mul(mm, inv): cc / c for mm, cc in self.num.items()}
                    self.den = {(): F1}
            # (a) atoms whose exponent has a closed meaning are rewritten
            need = False
            for poly in (self.num, self.den):
                for m in poly:
                    for a, e in m:
                        if _needs_rewrite(a, e):
                            need = True
                            break
                    if need:
                        break
                if need:
                    break
            if not need:
                break
            res = _rewrite_poly(self.num).div(_rewrite_poly(self.den))
            self.num, self.den = res.num, res.den
        if len(self.den) > 1:
            # scale so that the den's first coefficient (canonical order) is 1
            m0 = min(self.den, key=lambda m: tuple((_akey(a), e) for a, e in m))
            c0 = self.den[m0]
            if c0 != 1:
                self.num = {m: c / c0 for m, c in self.num.items()}
                self.den = {m: c / c0 for m, c in self.den.items()}
        if not self.num:
            self.den = {(): F1}

    # -------------------------------------------------------------- arithmetic
    def __add__(self, o):
        o = _R(o)
        if self.den == o.den:
            return R(poly_add(self.num, o.num), dict(self.den))
        return R(poly_add(poly_mul(self.num, o.den), poly_mul(o.num, self.den)),
                 poly_mul(self.den, o.den))

    __radd__ = __add__

    def __neg__(self):
        return R({m: -c for m, c in self.num.items()}, dict(self.den), False)

    def __sub__(self, o):
        return self + (-_R(o))

    def __rsub__(self, o):
        return _R(o) + (-self)

    def __mul__(self, o):
        o = _R(o)
        return R(poly_mul(self.num, o.num), poly_mul(self.den, o.den))

    __rmul__ = __mul__

    def div(self, o):
        o = _R(o)
        if not o.num:
            raise Unsupported("division by zero")
        return R(poly_mul(self.num, o.den), poly_mul(self.den, o.num))

    __truediv__ = div

    def __rtruediv__(self, o):
        return _R(o).div(self)

    def is_zero(self):
        return not self.num

    def eq(self, o):
        return (self - _R(o)).is_zero()

    def is_const(self):
        return self.den == {(): F1} and all(m == () for m in self.num)

    def const_value(self):
        return self.num.get((), F0)

    def is_poly(self):
        return self.den == {(): F1}

    def single_term(self):
        """(coeff, mono) if this is a single monomial (den folded), else None."""
        if self.den == {(): F1} and len(self.num) == 1:
            (m, c), = self.num.items()
            return c, m
        return None

    def pow(self, q):
        """self ** q with q a Fraction (or R for symbolic exponents)."""
        if isinstance(q, R):
            if q.is_const():
                q = q.const_value()
            else:
                # a**e = exp(e*log a)
                return exp_(q * log_(self))
        q = Fraction(repr(q)) if isinstance(q, float) else Fraction(q)
        if q == 0:
            return R.const(1)
        if q == 1:
            return self
        if not self.num:
            if q > 0:
                return R.const(0)
            raise Unsupported("0 ** negative")
        if q.denominator == 1:
            n = int(q)
            base = self if n > 0 else R(dict(self.den), dict(self.num))
            out = R.const(1)
            for _ in range(abs(n)):
                out = out * base
            return out
        # fractional exponent
        st = self.single_term()
        if st is not None:
            c, m = st
            return _num_pow(c, q) * R({mono_pow(m, q): F1})
        if self.den != {(): F1}:
            return R(dict(self.num)).pow(q).div(R(dict(self.den)).pow(q))
        # multi-term polynomial: (negative-exponent monomial) * content * primitive
        m_neg, q_poly = _split_laurent(self.num)
        if m_neg:
            return R({mono_pow(m_neg, q): F1}) * R(q_poly).pow(q)
        cont, m_p, prim = _numeric_normalise(self.num)
        ipart = q.numerator // q.denominator
        frac = q - ipart
        out = _num_pow(cont, q) * R({mono_pow(m_p, q): F1})
        pid = REG.reg(R(prim))
        out = out * R.atom(("poly", pid), frac)
        if ipart:
            out = out * R(prim).pow(Fraction(ipart))
        return out

    def __pow__(self, q):
        return self.pow(q)

    # -------------------------------------------------------------- keys / printing
    def skey(self):
        if self._sk is None:
            self._sk = (tuple(sorted((tuple((_akey(a), str(e)) for a, e in m), str(c))
                                     for m, c in self.num.items())),
                        tuple(sorted((tuple((_akey(a), str(e)) for a, e in m), str(c))
                                     for m, c in self.den.items())))
        return self._sk

    def atoms(self):
        s = set()
        for poly in (self.num, self.den):
            for m in poly:
                for a, _ in m:
                    s.add(a)
        return s

    def all_atoms(self, seen=None):
        """Atoms including those nested inside function arguments."""
        seen = set() if seen is None else seen
        for a in self.atoms():
            if a in seen:
                continue
            seen.add(a)
            if a[0] in ("exp", "log", "poly", "sum"):
                for x in REG.get(a[1]):
                    x.all_atoms(seen)
            elif a[0] == "fn":
                for x in REG.get(a[2]):
                    x.all_atoms(seen)
        return seen

    def __str__(self):
        def ps(p):
            if not p:
                return "0"
            terms = []
            for m, c in sorted(p.items(), key=lambda t: tuple((_akey(a), e) for a, e in t[0])):
                fs = []
                for a, e in m:
                    s = atom_str(a)
                    fs.append(s if e == 1 else f"{s}^{e}")
                body = "*".join(fs)
                if not body:
                    terms.append(str(c))
                elif c == 1:
                    terms.append(body)
                elif c == -1:
                    terms.append("-" + body)
                else:
                    terms.append(f"{c}*{body}")
            return " + ".join(terms)
        if self.den == {(): F1}:
            return ps(self.num)
        return f"({ps(self.num)})/({ps(self.den)})"

    __repr__ = __str__


def _R(x):
    if isinstance(x, R):
        return x
    if isinstance(x, (int, Fraction)):
        return R.const(x)
    if isinstance(x, float):
        return R.const(Fraction(repr(x)))
    raise Unsupported(f"cannot lift {type(x).__name__} into the algebra")


def _split_laurent(poly):
    """P = m_neg * Q with Q free of negative exponents (m_neg a monomial, possibly ())."""
    mins = {}
    for m in poly:
        for a, e in m:
            if e < 0:
                mins[a] = min(mins.get(a, F0), e)
    if not mins:
        return (), poly
    # atoms absent from a term have exponent 0 there, so only negative minima matter
    m_neg = tuple(sorted(mins.items(), key=lambda t: _akey(t[0])))
    inv = mono_pow(m_neg, Fraction(-1))
    return m_neg, {mono_mul(m, inv): c for m, c in poly.items()}


def _content(poly):
    """Positive rational content and primitive part of a multi-term polynomial."""
    num_g, den_l = 0, 1
    for c in poly.values():
        num_g = math.gcd(num_g, abs(c.numerator))
        den_l = den_l * c.denominator // math.gcd(den_l, c.denominator)
    cont = Fraction(num_g, den_l)
    return cont, {m: c / cont for m, c in poly.items()}


def _numeric_normalise(poly):
    """poly = c * m_p * poly'  with c > 0 rational, m_p a monomial of prime-power atoms, and the
    canonical-first term of poly' having numeric part +/-1.  Makes `log` / fractional powers of
    multi-term polynomials independent of how numeric factors such as 2^(1/2) were distributed."""
    def split(m):
        return (tuple((a, e) for a, e in m if a[0] != "prime"), tuple((a, e) for a, e in m if a[0] == "prime"))
    lead = min(poly, key=lambda m: tuple((_akey(a), e) for a, e in split(m)[0]))
    c = abs(poly[lead])
    m_p = split(lead)[1]
    inv = mono_pow(m_p, Fraction(-1))
    newp = {}
    for m, k in poly.items():
        mm = mono_mul(m, inv)
        newp[mm] = newp.get(mm, F0) + k / c
    return c, m_p, R(newp).num


def _num_pow(c, q):
    """c ** q for rational c, fractional q, via prime-power atoms (R6)."""
    c = Fraction(c)
    if c == 1:
        return R.const(1)
    if c < 0:
        raise Unsupported(f"negative base {c} with fractional exponent {q}")
    out = R.const(1)
    for p, k in _factorint(c.numerator).items():
        out = out * R.atom(("prime", p), k * q)
    for p, k in _factorint(c.denominator).items():
        out = out * R.atom(("prime", p), -k * q)
    return out


def _needs_rewrite(a, e):
    if a[0] == "prime" and e.denominator == 1:
        return True
    if a[0] == "prime" and not (0 < e < 1):
        return True
    if a[0] == "poly" and not (0 < e < 1):
        return True
    if a[0] == "fn" and a[1] == "abs" and e.denominator == 1 and e % 2 == 0:
        return True
    return False


def _rewrite_poly(poly):
    total = R.const(0)
    for m, c in poly.items():
        term = R.const(c)
        plain = []
        for a, e in m:
            if _needs_rewrite(a, e):
                if a[0] == "prime":
                    ip = e.numerator // e.denominator
                    fr = e - ip
                    term = term * R.const(Fraction(a[1]) ** ip)
                    if fr:
                        plain.append((a, fr))
                elif a[0] == "poly":
                    ip = e.numerator // e.denominator
                    fr = e - ip
                    term = term * REG.get(a[1])[0].pow(Fraction(ip))
                    if fr:
                        plain.append((a, fr))
                else:  # abs with even exponent
                    term = term * REG.get(a[2])[0].pow(e)
            else:
                plain.append((a, e))
        if plain:
            term = term * R({tuple(sorted(plain, key=lambda t: _akey(t[0]))): F1}, None, False)
        total = total + term
    return total


# ------------------------------------------------------------------ functions
PI = R.atom(("const", "pi"))


def sqrt_(x):
    return _R(x).pow(Fraction(1, 2))


def exp_(x):
    x = _R(x)
    if not x.num:
        return R.const(1)
    out = R.const(1)
    den = R(dict(x.den))
    for m, c in x.num.items():
        arg = R({m: F1}).div(den)
        # R2: exp(c*log P) = P^c
        st = arg.single_term()
        if st is not None and st[0] == 1 and len(st[1]) == 1 and st[1][0][1] == 1 \
                and st[1][0][0][0] in ("log", "logp"):
            a = st[1][0][0]
            base = REG.get(a[1])[0] if a[0] == "log" else R.const(a[1])
            out = out * base.pow(c)
            continue
        aid = REG.reg(arg)
        out = out * R.atom(("exp", aid), c)
    return out


def _log_atom(a):
    if a[0] == "exp":
        return REG.get(a[1])[0]
    if a[0] == "prime":
        return R.atom(("logp", a[1]))
    if a[0] == "poly":
        return log_(REG.get(a[1])[0])
    return R.atom(("log", REG.reg(R.atom(a))))


def _log_poly(poly):
    if not poly:
        raise Unsupported("log(0)")
    if len(poly) == 1:
        (m, c), = poly.items()
        out = _log_num(c)
        for a, e in m:
            out = out + _log_atom(a) * R.const(e)
        return out
    m_neg, q_poly = _split_laurent(poly)
    if m_neg:
        out = _log_poly(q_poly)
        for a, e in m_neg:
            out = out + _log_atom(a) * R.const(e)
        return out
    # common monomial factor of all terms (R3: every factor of a log argument is positive)
    common = None
    for m in poly:
        d = dict(m)
        common = d if common is None else {a: min(e, d[a]) for a, e in common.items() if a in d}
    if common:
        m_g = tuple(sorted(common.items(), key=lambda t: _akey(t[0])))
        inv = mono_pow(m_g, Fraction(-1))
        out = _log_poly({mono_mul(m, inv): c for m, c in poly.items()})
        for a, e in m_g:
            out = out + _log_atom(a) * R.const(e)
        return out
    cont, m_p, prim = _numeric_normalise(poly)
    # canonical sign is kept inside the normalised part
    out = _log_num(cont) + R.atom(("log", REG.reg(R(prim))))
    for a, e in m_p:
        out = out + R.atom(("logp", a[1])) * R.const(e)
    return out


def _log_num(c):
    c = Fraction(c)
    if c == 1:
        return R.const(0)
    if c <= 0:
        raise Unsupported(f"log of non-positive constant {c}")
    out = R.const(0)
    for p, k in _factorint(c.numerator).items():
        out = out + R.atom(("logp", p)) * k
    for p, k in _factorint(c.denominator).items():
        out = out - R.atom(("logp", p)) * k
    return out


def log_(x):
    x = _R(x)
    return _log_poly(x.num) - _log_poly(x.den)


def log1p_(x):
    return log_(R.const(1) + _R(x))


def expm1_(x):
    return exp_(x) - R.const(1)


def logaddexp_(a, b):
    return log_(exp_(a) + exp_(b))


def _leading_sign(x):
    """Canonical sign of a rational function (sign of the first numerator coefficient)."""
    if not x.num:
        return 1
    m0 = min(x.num, key=lambda m: tuple((_akey(a), e) for a, e in m))
    return 1 if x.num[m0] > 0 else -1


def fn_(name, *args, parity=None):
    args = [_R(a) for a in args]
    if parity in ("odd", "even") and len(args) == 1 and _leading_sign(args[0]) < 0:
        inner = R.atom(("fn", name, REG.reg(-args[0])))
        return -inner if parity == "odd" else inner
    return R.atom(("fn", name, REG.reg(*args)))


def erf_(x):
    return fn_("erf", x, parity="odd")


def tanh_(x):
    return fn_("tanh", x, parity="odd")


def cos_(x):
    return fn_("cos", x, parity="even")


def abs_(x):
    x = _R(x)
    if x.is_const():
        return R.const(abs(x.const_value()))
    return fn_("abs", x, parity="even")


def erfcx_(x):
    x = _R(x)
    return exp_(x * x) * (R.const(1) - erf_(x))


# ------------------------------------------------------------------ reduction (R11)
def sum_(x, is_array, n_atom, tag=""):
    """Linear reduction of x over its array axis.  is_array(atom) says whether an atom
    varies along the reduced axis; n_atom is the R standing for the number of elements."""
    x = _R(x)

    def arr(a):
        return _atom_is_array(a, is_array)

    den_arr = any(arr(a) for a in R(dict(x.den)).atoms())
    den_s = R.const(1) if den_arr else R(dict(x.den))
    den_a = R(dict(x.den)) if den_arr else R.const(1)
    out = R.const(0)
    for m, c in x.num.items():
        ms = tuple((a, e) for a, e in m if not arr(a))
        ma = tuple((a, e) for a, e in m if arr(a))
        inner = R({ma: F1}).div(den_a)
        if inner.eq(R.const(1)):
            s = _R(n_atom)
        else:
            s = R.atom(("sum", REG.reg(inner), tag))
        out = out + R({ms: c}) * s
    return out.div(den_s)


def _atom_is_array(a, is_array):
    if a[0] in ("sym", "const"):
        return is_array(a)
    if a[0] in ("prime", "logp"):
        return False
    if a[0] == "sum":
        return False
    idx = a[2] if a[0] == "fn" else a[1]
    return any(_atom_is_array(b, is_array) for x in REG.get(idx) for b in x.all_atoms()
               if b[0] in ("sym", "const"))


# ------------------------------------------------------------------ differentiation
def diff(x, var, pointwise_sum=True):
    """d x / d var, var an atom.  With pointwise_sum the derivative of Sum[inner] with
    respect to an array atom is d inner / d var un-summed (indexed differentiation)."""
    x = _R(x)
    dn = _dpoly(x.num, var, pointwise_sum)
    if x.den == {(): F1}:
        return dn
    dd = _dpoly(x.den, var, pointwise_sum)
    n, d = R(dict(x.num)), R(dict(x.den))
    return (dn * d - n * dd).div(d * d)


def _dpoly(poly, var, pws):
    out = R.const(0)
    for m, c in poly.items():
        for i, (a, e) in enumerate(m):
            da = _datom(a, var, pws)
            if da.is_zero():
                continue
            rest = m[:i] + m[i + 1:]
            lowered = ((a, e - 1),) if e != 1 else ()
            out = out + R.const(c * e) * R({mono_mul(rest, lowered): F1}) * da
    return out


def _datom(a, var, pws):
    if a == var:
        return R.const(1)
    k = a[0]
    if k in ("sym", "const", "prime", "logp"):
        return R.const(0)
    if k == "exp":
        arg = REG.get(a[1])[0]
        return R.atom(a) * diff(arg, var, pws)
    if k == "log":
        arg = REG.get(a[1])[0]
        return diff(arg, var, pws).div(arg)
    if k == "poly":
        return diff(REG.get(a[1])[0], var, pws)
    if k == "sum":
        inner = REG.get(a[1])[0]
        d = diff(inner, var, pws)
        if d.is_zero():
            return d
        if pws:
            return d
        return R.atom(("sum", REG.reg(d), a[2]))
    if k == "fn":
        args = REG.get(a[2])
        name = a[1]
        if len(args) != 1:
            if all(diff(x, var, pws).is_zero() for x in args):
                return R.const(0)
            raise Unsupported(f"derivative of {name} with {len(args)} arguments")
        u = args[0]
        du = diff(u, var, pws)
        if du.is_zero():
            return du
        if name == "erf":
            return R.const(2) * PI.pow(Fraction(-1, 2)) * exp_(-(u * u)) * du
        if name == "tanh":
            return (R.const(1) - R.atom(a) * R.atom(a)) * du
        if name == "cos":
            return -fn_("sin", u, parity="odd") * du
        if name == "sin":
            return cos_(u) * du
        if name == "abs":
            # d|u| = sign(u) du = |u|/u du   (u != 0)
            return R.atom(a).div(u) * du
        raise Unsupported(f"derivative of function {name}")
    raise Unsupported(f"derivative of atom {a}")


def subst(x, mapping):
    """Substitute atoms by R values (top-level and nested)."""
    x = _R(x)

    def sub_atom(a):
        if a in mapping:
            return _R(mapping[a])
        k = a[0]
        if k in ("sym", "const", "prime", "logp"):
            return R.atom(a)
        if k == "exp":
            return exp_(subst(REG.get(a[1])[0], mapping))
        if k == "log":
            return log_(subst(REG.get(a[1])[0], mapping))
        if k == "poly":
            # exponent handled by caller through pow on the returned base
            return subst(REG.get(a[1])[0], mapping)
        if k == "sum":
            inner = subst(REG.get(a[1])[0], mapping)
            return R.atom(("sum", REG.reg(inner), a[2]))
        if k == "fn":
            args = [subst(t, mapping) for t in REG.get(a[2])]
            name = a[1]
            table = {"erf": erf_, "tanh": tanh_, "cos": cos_, "abs": abs_}
            if name in table and len(args) == 1:
                return table[name](args[0])
            return fn_(name, *args)
        return R.atom(a)

    def sub_poly(p):
        out = R.const(0)
        for m, c in p.items():
            t = R.const(c)
            for a, e in m:
                t = t * sub_atom(a).pow(e)
            out = out + t
        return out

    return sub_poly(x.num).div(sub_poly(x.den))


def proportional(a, b):
    """The Fraction c with a == c*b (a, b non-zero), or None."""
    a, b = _R(a), _R(b)
    if not a.num or not b.num:
        return None
    P = (a * R(dict(b.den))).num if a.den != b.den else a.num
    Q = (b * R(dict(a.den))).num if a.den != b.den else b.num
    m0 = next(iter(Q))
    if m0 not in P:
        return None
    c = P[m0] / Q[m0]
    return c if a.eq(b * R.const(c)) else None
